# Harness objects only; library objects are rebuilt from $(REPO) by ./vcheck on every check invocation.
REPO ?= $(or $(VERIF_REPO),/repo)
B := build
CXX := g++
CXXFLAGS := -std=c++17 -O2 -g -Wall -Wno-unused -Wno-misleading-indentation -Wno-parentheses -Wno-maybe-uninitialized -I$(B)/inc -Isrc
ENGINES := x_parse x_print x_hist x_fault x_compare x_minify x_utils x_sched
HDRS := $(wildcard src/*.hpp) $(wildcard src/*.inc)
OBJS := $(B)/h/sup.o $(patsubst %,$(B)/h/%.o,$(filter $(ENGINES),$(basename $(notdir $(wildcard src/x_*.cpp)))))

.PHONY: setup harness inc clean selftest
setup: harness
harness: inc
	@$(MAKE) --no-print-directory $(OBJS)

# copy of the repository headers, refreshed only when their content changes (keeps harness objects stable)
inc:
	@mkdir -p $(B)/inc $(B)/h
	@for f in cJSON.h cJSON_Utils.h; do cmp -s $(REPO)/$$f $(B)/inc/$$f || cp $(REPO)/$$f $(B)/inc/$$f; done

$(B)/h/%.o: src/%.cpp $(HDRS) $(B)/inc/cJSON.h $(B)/inc/cJSON_Utils.h
	$(CXX) $(CXXFLAGS) -c $< -o $@

selftest: harness
	$(CXX) $(CXXFLAGS) src/selftest.cpp $(B)/h/sup.o $(REPO)/cJSON.c $(REPO)/cJSON_Utils.c -x none -Wl,--wrap=malloc,--wrap=calloc,--wrap=realloc,--wrap=free -lm -o $(B)/selftest
	python3 tools/selftest.py

clean:
	rm -rf $(B)
