// x_fault (C08): exhaustive single-fault enumeration. For every scenario (one core API call on prepared trees) the call is run
// once to count its N allocation requests, then N times with request k refused (thorough: also "every request from k on"),
// under custom hooks and under the default allocator with malloc/realloc interposed.
#include "sup.hpp"
#include <functional>
#include <math.h>
using namespace vf;

namespace {

struct Ctx {
    std::vector<cJSON*> trees;   // pre-existing trees: must be unchanged when the call fails
    std::vector<cJSON*> args;    // caller-owned detached items handed to the call
    std::vector<bool> arg_consumed;
    cJSON* res_tree = nullptr; char* res_text = nullptr;
    bool failed = false;         // the call reported its documented failure value
    std::string repr;            // observable result (for comparison with the fault-free run)
    char prebuf[2048];
};
struct Scen { std::string name; std::function<void(Ctx&)> prep; std::function<void(Ctx&)> call; };

cJSON* P(const char* t) { cJSON* r = LIB(cJSON_Parse(t)); if (!r) { fprintf(stderr, "scenario text does not parse: %s\n", t); abort(); } return r; }
std::string wt(const cJSON* t) { if (!t) return "NULL"; Walk w = walk(t, W_NO_OWNED); return w.ok ? w.text : "MALFORMED:" + w.err; }
std::string big_text() { std::string s = "{\"title\":\"" + std::string(150, 'x') + "\",\"list\":["; for (int i = 0; i < 40; i++) { if (i) s += ","; s += std::to_string(i * 1000003 % 99991) + ".5"; } s += "],\"nested\":{\"a\":{\"b\":{\"c\":[true,false,null,\"" + std::string(90, 'y') + "\\n\\u00e9\"]}}},\"e\\\"sc\":\"q\\\"\\\\\"}"; return s; }

std::vector<Scen> scenarios() {
    std::vector<Scen> S;
    static const std::string BIG = big_text();
    static const char* SMALL = "{\"a\":[1,2,{\"b\":null}],\"c\":\"str\",\"d\":true}";
    auto add = [&](const std::string& n, std::function<void(Ctx&)> prep, std::function<void(Ctx&)> call) { S.push_back({n, prep, call}); };
    auto none = [](Ctx&) {};
    // ---- parse
    static const char* texts[] = { "null", "1", "\"s\"", "\"esc\\n\\u00e9\\uD83D\\uDE00\"", "[]", "{}", "[1,2,3]", "{\"k\":\"v\"}", "{\"a\":{\"b\":{\"c\":[1,[2,[3]]]}}}", "[\"a\",\"b\",{\"c\":\"d\",\"e\":[null,true]}]", " [ 1 , \"x\" ] " };
    for (auto t : texts) for (int entry = 0; entry < 3; entry++) add(std::string("Parse") + (entry == 1 ? "WithLength" : entry == 2 ? "WithOpts" : "") + "(" + t + ")", none, [t, entry](Ctx& c) {
        const char* end = nullptr; c.res_tree = entry == 0 ? LIB(cJSON_Parse(t)) : entry == 1 ? LIB(cJSON_ParseWithLength(t, strlen(t))) : LIB(cJSON_ParseWithOpts(t, &end, 1));
        c.failed = !c.res_tree; c.repr = wt(c.res_tree); });
    add("Parse(big)", none, [](Ctx& c) { c.res_tree = LIB(cJSON_Parse(BIG.c_str())); c.failed = !c.res_tree; c.repr = wt(c.res_tree); });
    // ---- print
    for (int big = 0; big < 2; big++) {
        auto prep = [big](Ctx& c) { c.trees.push_back(P(big ? BIG.c_str() : SMALL)); };
        std::string tn = big ? "big" : "small";
        add("Print(" + tn + ")", prep, [](Ctx& c) { c.res_text = LIB(cJSON_Print(c.trees[0])); c.failed = !c.res_text; c.repr = c.res_text ? c.res_text : "NULL"; });
        add("PrintUnformatted(" + tn + ")", prep, [](Ctx& c) { c.res_text = LIB(cJSON_PrintUnformatted(c.trees[0])); c.failed = !c.res_text; c.repr = c.res_text ? c.res_text : "NULL"; });
        for (int pb : { 0, 1, 17, 64, 256, 700, 5000 }) for (int fmt = 0; fmt < 2; fmt++)
            add("PrintBuffered(" + tn + "," + std::to_string(pb) + "," + std::to_string(fmt) + ")", prep, [pb, fmt](Ctx& c) { c.res_text = LIB(cJSON_PrintBuffered(c.trees[0], pb, fmt)); c.failed = !c.res_text; c.repr = c.res_text ? c.res_text : "NULL"; });
        add("PrintPreallocated(" + tn + ")", prep, [](Ctx& c) { static char buf[4096]; cJSON_bool ok = LIB(cJSON_PrintPreallocated(c.trees[0], buf, sizeof buf, 1)); c.failed = !ok; c.repr = ok ? buf : "false"; });
    }
    // formatted prints in which the growth of the 256-byte buffer falls on every token in turn (key of every length around the boundary)
    for (int L = 226; L <= 262; L++) {
        auto prep = [L](Ctx& c) { std::string t = "{\"" + std::string((size_t)L, 'k') + "\":{\"n\":[1,2]},\"z\":\"" + std::string(20, 'v') + "\"}"; c.trees.push_back(P(t.c_str())); };
        add("Print(key length " + std::to_string(L) + ")", prep, [](Ctx& c) { c.res_text = LIB(cJSON_Print(c.trees[0])); c.failed = !c.res_text; c.repr = c.res_text ? c.res_text : "NULL"; });
        if (L % 4 == 0) add("PrintUnformatted(key length " + std::to_string(L) + ")", prep, [](Ctx& c) { c.res_text = LIB(cJSON_PrintUnformatted(c.trees[0])); c.failed = !c.res_text; c.repr = c.res_text ? c.res_text : "NULL"; });
    }
    // strings with many escapes (decoded text much shorter than the literal)
    for (int n : { 1, 15, 16, 17, 40, 200 }) { std::string t = "[\""; for (int i = 0; i < n; i++) t += "\\u00e9\\n"; t += "\",{\"k"; for (int i = 0; i < n; i++) t += "\\t"; t += "\":1}]";
        add("Parse(" + std::to_string(n) + " escapes)", none, [t](Ctx& c) { c.res_tree = LIB(cJSON_Parse(t.c_str())); c.failed = !c.res_tree; c.repr = wt(c.res_tree); }); }
    // ---- create
    add("CreateNull", none, [](Ctx& c) { c.res_tree = LIB(cJSON_CreateNull()); c.failed = !c.res_tree; c.repr = wt(c.res_tree); });
    add("CreateTrue", none, [](Ctx& c) { c.res_tree = LIB(cJSON_CreateTrue()); c.failed = !c.res_tree; c.repr = wt(c.res_tree); });
    add("CreateFalse", none, [](Ctx& c) { c.res_tree = LIB(cJSON_CreateFalse()); c.failed = !c.res_tree; c.repr = wt(c.res_tree); });
    add("CreateBool", none, [](Ctx& c) { c.res_tree = LIB(cJSON_CreateBool(1)); c.failed = !c.res_tree; c.repr = wt(c.res_tree); });
    add("CreateNumber", none, [](Ctx& c) { c.res_tree = LIB(cJSON_CreateNumber(4.5)); c.failed = !c.res_tree; c.repr = wt(c.res_tree); });
    add("CreateString", none, [](Ctx& c) { c.res_tree = LIB(cJSON_CreateString("hello")); c.failed = !c.res_tree; c.repr = wt(c.res_tree); });
    add("CreateRaw", none, [](Ctx& c) { c.res_tree = LIB(cJSON_CreateRaw("[1]")); c.failed = !c.res_tree; c.repr = wt(c.res_tree); });
    add("CreateArray", none, [](Ctx& c) { c.res_tree = LIB(cJSON_CreateArray()); c.failed = !c.res_tree; c.repr = wt(c.res_tree); });
    add("CreateObject", none, [](Ctx& c) { c.res_tree = LIB(cJSON_CreateObject()); c.failed = !c.res_tree; c.repr = wt(c.res_tree); });
    add("CreateStringReference", none, [](Ctx& c) { c.res_tree = LIB(cJSON_CreateStringReference("lit")); c.failed = !c.res_tree; c.repr = wt(c.res_tree); });
    add("CreateArrayReference", [](Ctx& c) { c.trees.push_back(P("[1,2]")); }, [](Ctx& c) { c.res_tree = LIB(cJSON_CreateArrayReference(c.trees[0]->child)); c.failed = !c.res_tree; c.repr = wt(c.res_tree); });
    add("CreateObjectReference", [](Ctx& c) { c.trees.push_back(P("{\"a\":1}")); }, [](Ctx& c) { c.res_tree = LIB(cJSON_CreateObjectReference(c.trees[0]->child)); c.failed = !c.res_tree; c.repr = wt(c.res_tree); });
    for (int n = 0; n <= 3; n++) {
        add("CreateIntArray(" + std::to_string(n) + ")", none, [n](Ctx& c) { static const int v[] = { 1, 2, 3 }; c.res_tree = LIB(cJSON_CreateIntArray(v, n)); c.failed = !c.res_tree; c.repr = wt(c.res_tree); });
        add("CreateFloatArray(" + std::to_string(n) + ")", none, [n](Ctx& c) { static const float v[] = { 1.5f, 2, 3 }; c.res_tree = LIB(cJSON_CreateFloatArray(v, n)); c.failed = !c.res_tree; c.repr = wt(c.res_tree); });
        add("CreateDoubleArray(" + std::to_string(n) + ")", none, [n](Ctx& c) { static const double v[] = { 1.5, 2, 3 }; c.res_tree = LIB(cJSON_CreateDoubleArray(v, n)); c.failed = !c.res_tree; c.repr = wt(c.res_tree); });
        add("CreateStringArray(" + std::to_string(n) + ")", none, [n](Ctx& c) { static const char* v[] = { "x", "yy", "" }; c.res_tree = LIB(cJSON_CreateStringArray(v, n)); c.failed = !c.res_tree; c.repr = wt(c.res_tree); });
    }
    // bulk constructors with more elements than any stack scratch array would hold, and a string list with NULL entries (refused as a whole today)
    for (int n : { 8, 16, 17, 32, 33, 40, 64, 65, 100 }) {
        add("CreateIntArray(" + std::to_string(n) + ")", none, [n](Ctx& c) { std::vector<int> v((size_t)n); for (int i = 0; i < n; i++) v[(size_t)i] = i * 3 - 7; c.res_tree = LIB(cJSON_CreateIntArray(v.data(), n)); c.failed = !c.res_tree; c.repr = wt(c.res_tree); });
        add("CreateFloatArray(" + std::to_string(n) + ")", none, [n](Ctx& c) { std::vector<float> v((size_t)n); for (int i = 0; i < n; i++) v[(size_t)i] = (float)i * 0.5f; c.res_tree = LIB(cJSON_CreateFloatArray(v.data(), n)); c.failed = !c.res_tree; c.repr = wt(c.res_tree); });
        add("CreateDoubleArray(" + std::to_string(n) + ")", none, [n](Ctx& c) { std::vector<double> v((size_t)n); for (int i = 0; i < n; i++) v[(size_t)i] = i * 1.25; c.res_tree = LIB(cJSON_CreateDoubleArray(v.data(), n)); c.failed = !c.res_tree; c.repr = wt(c.res_tree); });
        add("CreateStringArray(" + std::to_string(n) + ")", none, [n](Ctx& c) { std::vector<std::string> ss((size_t)n); std::vector<const char*> v((size_t)n); for (int i = 0; i < n; i++) { ss[(size_t)i] = "s" + std::to_string(i); v[(size_t)i] = ss[(size_t)i].c_str(); } c.res_tree = LIB(cJSON_CreateStringArray(v.data(), n)); c.failed = !c.res_tree; c.repr = wt(c.res_tree); });
    }
    for (int pos = 0; pos < 3; pos++) add("CreateStringArray(NULL entry at " + std::to_string(pos) + ")", none, [pos](Ctx& c) { const char* v[] = { "x", "yy", "z" }; v[pos] = nullptr; c.res_tree = LIB(cJSON_CreateStringArray(v, 3)); c.failed = !c.res_tree; c.repr = wt(c.res_tree); });
    add("CreateStringArray(only NULL)", none, [](Ctx& c) { const char* v[] = { nullptr }; c.res_tree = LIB(cJSON_CreateStringArray(v, 1)); c.failed = !c.res_tree; c.repr = wt(c.res_tree); });
    // ---- add helpers on an existing object
    auto objprep = [](Ctx& c) { c.trees.push_back(P("{\"x\":[1,2],\"y\":\"z\"}")); c.trees.push_back(P("[\"other\"]")); };
    typedef cJSON* (*H0)(cJSON* const, const char* const);
    struct HN { const char* n; H0 f; }; static const HN h0[] = { { "AddNullToObject", cJSON_AddNullToObject }, { "AddTrueToObject", cJSON_AddTrueToObject }, { "AddFalseToObject", cJSON_AddFalseToObject }, { "AddObjectToObject", cJSON_AddObjectToObject }, { "AddArrayToObject", cJSON_AddArrayToObject } };
    for (auto& h : h0) add(h.n, objprep, [h](Ctx& c) { cJSON* r = LIB(h.f(c.trees[0], "new")); c.failed = !r; c.repr = wt(c.trees[0]); });
    add("AddBoolToObject", objprep, [](Ctx& c) { cJSON* r = LIB(cJSON_AddBoolToObject(c.trees[0], "new", 1)); c.failed = !r; c.repr = wt(c.trees[0]); });
    add("AddNumberToObject", objprep, [](Ctx& c) { cJSON* r = LIB(cJSON_AddNumberToObject(c.trees[0], "new", 7)); c.failed = !r; c.repr = wt(c.trees[0]); });
    add("AddStringToObject", objprep, [](Ctx& c) { cJSON* r = LIB(cJSON_AddStringToObject(c.trees[0], "new", "val")); c.failed = !r; c.repr = wt(c.trees[0]); });
    add("AddRawToObject", objprep, [](Ctx& c) { cJSON* r = LIB(cJSON_AddRawToObject(c.trees[0], "new", "{}")); c.failed = !r; c.repr = wt(c.trees[0]); });
    // ---- add item (fresh item / item that already owns a key / constant key)
    for (int keyed = 0; keyed < 3; keyed++) for (int cs = 0; cs < 2; cs++) {
        auto prep = [keyed](Ctx& c) { c.trees.push_back(P("{\"x\":1}"));
            cJSON* item; if (keyed == 0) item = P("[1,\"two\"]"); else { cJSON* src = P("{\"old\":{\"q\":1}}"); if (keyed == 2) { item = LIB(cJSON_CreateString("v")); LIBV(cJSON_AddItemToObjectCS(src, "ckey", item)); item = LIB(cJSON_DetachItemFromObject(src, "ckey")); } else item = LIB(cJSON_DetachItemFromObject(src, "old")); LIBV(cJSON_Delete(src)); }
            c.args.push_back(item); };
        add(std::string("AddItemToObject") + (cs ? "CS" : "") + "(item " + (keyed == 0 ? "fresh" : keyed == 1 ? "with owned key" : "with constant key") + ")", prep, [cs](Ctx& c) {
            cJSON_bool ok = cs ? LIB(cJSON_AddItemToObjectCS(c.trees[0], "k", c.args[0])) : LIB(cJSON_AddItemToObject(c.trees[0], "k", c.args[0])); c.failed = !ok; if (ok) c.arg_consumed[0] = true; c.repr = wt(c.trees[0]) + "|" + (ok ? "" : wt(c.args[0])); });
    }
    add("AddItemToArray", [](Ctx& c) { c.trees.push_back(P("[1]")); c.args.push_back(P("{\"a\":2}")); }, [](Ctx& c) { cJSON_bool ok = LIB(cJSON_AddItemToArray(c.trees[0], c.args[0])); c.failed = !ok; if (ok) c.arg_consumed[0] = true; c.repr = wt(c.trees[0]); });
    // ---- add reference
    auto refprep = [](Ctx& c) { c.trees.push_back(P("{\"x\":1}")); c.trees.push_back(P("[10,{\"t\":[1,2]},\"s\"]")); c.trees.push_back(P("[0]")); };
    for (int which = 0; which < 3; which++) {
        add("AddItemReferenceToArray(#" + std::to_string(which) + ")", refprep, [which](Ctx& c) { cJSON* t = LIB(cJSON_GetArrayItem(c.trees[1], which)); cJSON_bool ok = LIB(cJSON_AddItemReferenceToArray(c.trees[2], t)); c.failed = !ok; c.repr = wt(c.trees[2]); });
        add("AddItemReferenceToObject(#" + std::to_string(which) + ")", refprep, [which](Ctx& c) { cJSON* t = LIB(cJSON_GetArrayItem(c.trees[1], which)); cJSON_bool ok = LIB(cJSON_AddItemReferenceToObject(c.trees[0], "ref", t)); c.failed = !ok; c.repr = wt(c.trees[0]); });
    }
    // ---- duplicate
    auto dupprep = [](Ctx& c) { cJSON* t = P("{\"a\":[1,\"two\",{\"b\":[null,true,{\"c\":\"d\"}]}],\"e\":\"f\",\"g\":{\"h\":2}}"); LIBV(cJSON_AddItemToObjectCS(t, "const", LIB(cJSON_CreateString("cs"))));
        cJSON* other = P("[\"borrowed\",{\"k\":1}]"); LIBV(cJSON_AddItemReferenceToObject(t, "ref", other->child)); LIBV(cJSON_AddItemReferenceToArray(LIB(cJSON_GetObjectItem(t, "a")), other->child->next)); LIBV(cJSON_AddItemToObject(t, "sref", LIB(cJSON_CreateStringReference("literal"))));
        c.trees.push_back(t); c.trees.push_back(other); };
    add("Duplicate(deep,recurse)", dupprep, [](Ctx& c) { c.res_tree = LIB(cJSON_Duplicate(c.trees[0], 1)); c.failed = !c.res_tree; c.repr = wt(c.res_tree); });
    add("Duplicate(deep,node only)", dupprep, [](Ctx& c) { c.res_tree = LIB(cJSON_Duplicate(c.trees[0]->child->next, 0)); c.failed = !c.res_tree; c.repr = wt(c.res_tree); });
    add("Duplicate(member with key)", dupprep, [](Ctx& c) { c.res_tree = LIB(cJSON_Duplicate(c.trees[0]->child, 1)); c.failed = !c.res_tree; c.repr = wt(c.res_tree); });
    add("Duplicate(array of 6 siblings)", [](Ctx& c) { c.trees.push_back(P("[\"a\",\"b\",\"c\",[1],{\"x\":\"y\"},6]")); }, [](Ctx& c) { c.res_tree = LIB(cJSON_Duplicate(c.trees[0], 1)); c.failed = !c.res_tree; c.repr = wt(c.res_tree); });
    // ---- replace by key
    for (int cs = 0; cs < 2; cs++) for (int keyed = 0; keyed < 3; keyed++) for (int hit = 0; hit < 2; hit++) {
        auto prep = [keyed](Ctx& c) { c.trees.push_back(P("{\"k\":[1,2],\"m\":\"n\"}")); cJSON* item; if (!keyed) item = P("\"fresh\""); else if (keyed == 1) { cJSON* src = P("{\"old\":\"keyed\"}"); item = LIB(cJSON_DetachItemFromObject(src, "old")); LIBV(cJSON_Delete(src)); }
            else { cJSON* src = LIB(cJSON_CreateObject()); item = LIB(cJSON_CreateString("const-keyed")); LIBV(cJSON_AddItemToObjectCS(src, "ckey", item)); item = LIB(cJSON_DetachItemViaPointer(src, item)); LIBV(cJSON_Delete(src)); } c.args.push_back(item); };
        add(std::string("ReplaceItemInObject") + (cs ? "CaseSensitive" : "") + (keyed == 0 ? "(fresh item" : keyed == 1 ? "(keyed item" : "(constant-keyed item") + (hit ? ", existing key)" : ", missing key)"), prep, [cs, hit](Ctx& c) {
            const char* k = hit ? "k" : "zz"; cJSON_bool ok = cs ? LIB(cJSON_ReplaceItemInObjectCaseSensitive(c.trees[0], k, c.args[0])) : LIB(cJSON_ReplaceItemInObject(c.trees[0], k, c.args[0])); c.failed = !ok; if (ok) c.arg_consumed[0] = true; c.repr = wt(c.trees[0]); });
    }
    // ---- set string
    add("SetValuestring(longer)", [](Ctx& c) { c.trees.push_back(P("[\"ab\",1]")); }, [](Ctx& c) { char* r = LIB(cJSON_SetValuestring(c.trees[0]->child, "a considerably longer string")); c.failed = !r; c.repr = wt(c.trees[0]); });
    add("SetValuestring(shorter)", [](Ctx& c) { c.trees.push_back(P("[\"abcdef\",1]")); }, [](Ctx& c) { char* r = LIB(cJSON_SetValuestring(c.trees[0]->child, "ab")); c.failed = !r; c.repr = wt(c.trees[0]); });
    // every combination of old and new length around the sizes at which an implementation might switch strategy (in place, reallocate, shrink)
    for (int lo : { 0, 1, 10, 63, 64, 255, 256, 257, 300, 1000, 5000 }) for (int ln : { 0, 1, 10, 63, 64, 255, 256, 257, 300, 1000, 5000 }) {
        add("SetValuestring(" + std::to_string(lo) + " -> " + std::to_string(ln) + ")", [lo](Ctx& c) { cJSON* a = LIB(cJSON_CreateArray()); LIBV(cJSON_AddItemToArray(a, LIB(cJSON_CreateString(std::string((size_t)lo, 'o').c_str())))); LIBV(cJSON_AddItemToArray(a, LIB(cJSON_CreateNumber(1)))); c.trees.push_back(a); },
            [ln](Ctx& c) { std::string nv((size_t)ln, 'n'); char* r = LIB(cJSON_SetValuestring(c.trees[0]->child, nv.c_str())); c.failed = !r; c.repr = wt(c.trees[0]); });
    }
    // number literals and strings longer than any fixed scratch buffer, well-formed and not (a text the library refuses anyway is a scenario like any other:
    // the refusal must not depend on the allocator)
    for (const char* t : { "[1.0000000000000000000000000000000000000000000000000000000000000000000000000000001]", "{\"n\":-eeeeeeeeeeeeeeeeeeeeeeeeeeeeeeeeeeeeeeeeeeeeeeeeeeeeeeeeeeeeeeeeeeeeeeeeeeeeeeeee}", "[12345678901234567890123456789012345678901234567890123456789012,\"x\"]",
                          "[\"0123456789012345678901234567890123456789012345678901234567890123456789012345678901234567890123456789\",{\"k0123456789012345678901234567890123456789012345678901234567890123456789\":[]}]" })
        for (int entry = 0; entry < 2; entry++) add(std::string("Parse") + (entry ? "WithLength" : "") + "(long token " + std::string(t).substr(0, 12) + "...)", none, [t, entry](Ctx& c) { c.res_tree = entry ? LIB(cJSON_ParseWithLength(t, strlen(t))) : LIB(cJSON_Parse(t)); c.failed = !c.res_tree; c.repr = wt(c.res_tree); });
    // several number literals beyond the fixed scratch size in one text, each longer than the one before (a scratch block that is grown between literals)
    { static const std::string many[] = { "[" + std::string(70, '1') + "," + std::string(90, '2') + "," + std::string(130, '3') + ",3]", "{\"a\":1." + std::string(64, '4') + ",\"b\":[1." + std::string(65, '5') + "e1,-" + std::string(200, '6') + "]}" };
      for (const std::string& s : many) for (int entry = 0; entry < 2; entry++) { const char* t = s.c_str(); add(std::string("Parse") + (entry ? "WithLength" : "") + "(growing long numbers " + s.substr(0, 8) + "...)", none, [t, entry](Ctx& c) { c.res_tree = entry ? LIB(cJSON_ParseWithLength(t, strlen(t))) : LIB(cJSON_Parse(t)); c.failed = !c.res_tree; c.repr = wt(c.res_tree); }); } }
    // ---- detach / delete / compare never allocate: a refused request cannot happen, they are listed so that N = 0 is part of the evidence
    add("DetachItemFromObject", [](Ctx& c) { c.trees.push_back(P("{\"a\":1,\"b\":2}")); }, [](Ctx& c) { cJSON* r = LIB(cJSON_DetachItemFromObject(c.trees[0], "a")); c.failed = !r; c.res_tree = r; c.repr = wt(c.trees[0]); });
    return S;
}

struct XFault : Engine {
    std::vector<Scen> S; bool verbose = false;
    const char* name() override { return "x_fault"; }
    std::vector<std::string> counter_names() override { return { "fault_fired", "call_reported_failure", "call_completed_despite_fault", "fault_not_reached", "allocation_requests_total", "scenarios_x_configs" }; }
    std::vector<std::string> stages() override { std::vector<std::string> st = { "single" }; if (cfg.thorough()) { st.push_back("from_k_on"); st.push_back("double"); } return st; }
    void worker_init() override { S = scenarios(); }

    struct Obs { bool failed; std::string repr; uint64_t requests; bool fired; bool violated; };
    // one execution of scenario s under config with fault k (0 = none)
    Obs execute(const Scen& s, int hk, uint64_t k, bool from, bool check, const Obs* clean, uint64_t k2 = 0) {
        Obs o{}; long base = ledger_live(); L.errors = 0;
        install_hooks(hk ? HK_CUSTOM : HK_DEFAULT);
        Ctx c; s.prep(c); c.arg_consumed.assign(c.args.size(), false);
        std::vector<std::string> pre; for (auto t : c.trees) pre.push_back(wt(t)); std::vector<std::string> prea; for (auto a : c.args) prea.push_back(wt(a));
        long live_before = ledger_live(); uint64_t req0 = L.requests;
        if (k2) ledger_arm_fault2(k, k2); else if (k) ledger_arm_fault(k, from);
        s.call(c); ctr().calls++;
        o.fired = ledger_fault_fired(); ledger_arm_fault(0, false);
        o.requests = L.requests - req0; o.failed = c.failed; o.repr = c.repr;
        auto VIO = [&](const char* sig, const std::string& m) { o.violated = true; if (check) violation(std::string("fault:") + sig, s.name + " [" + (hk ? "custom hooks" : "default allocator") + ", request " + std::to_string(k) + (k2 ? " and " + std::to_string(k2) : std::string()) + (from ? " and all later ones" : "") + " refused]: " + m); };
        if (verbose) printf("  %s hooks=%d k=%llu fired=%d failed=%d requests=%llu repr=%s\n", s.name.c_str(), hk, (unsigned long long)k, o.fired, o.failed, (unsigned long long)o.requests, printable(o.repr.substr(0, 120)).c_str());
        if (L.errors) VIO("allocator-misuse", L.first_error);
        if (k && o.fired) {
            if (c.failed) {
                // nothing allocated during the call remains, pre-existing trees and caller-owned arguments untouched
                long extra = ledger_live() - live_before;
                if (extra != 0) VIO(extra > 0 ? "leak-on-failure" : "freed-preexisting-memory", "after the failed call the allocator holds " + std::to_string(extra) + " block(s) more than before it");
                for (size_t i = 0; i < c.trees.size(); i++) if (wt(c.trees[i]) != pre[i]) VIO("preexisting-tree-modified", "pre-existing tree #" + std::to_string(i) + " changed from " + pre[i].substr(0, 200) + " to " + wt(c.trees[i]).substr(0, 200));
                for (size_t i = 0; i < c.args.size(); i++) if (!c.arg_consumed[i] && wt(c.args[i]) != prea[i]) VIO("argument-modified", "caller-owned item changed from " + prea[i].substr(0, 200) + " to " + wt(c.args[i]).substr(0, 200));
                if (c.res_tree || c.res_text) VIO("failure-with-result", "call reported failure but returned something");
            } else if (clean && o.repr != clean->repr) VIO("wrong-result-after-fault", "call did not report failure but its result differs from the fault-free result: " + printable(o.repr.substr(0, 200)) + " vs " + printable(clean->repr.substr(0, 200)));
            // the library remains usable: the same call now succeeds (on failure paths the state is as before)
            if (c.failed && !o.violated) {
                s.call(c); ctr().calls++;
                if (c.failed && !(clean && clean->failed)) VIO("unusable-after-failure", "the same call fails again without any fault");
                else if (clean && c.repr != clean->repr) VIO("different-result-after-failure", "the repeated call gives a different result than the fault-free run: " + printable(c.repr.substr(0, 200)));
                if (L.errors) VIO("allocator-misuse", L.first_error);
            }
        }
        // cleanup
        if (!o.violated || !L.errors) {
            if (c.res_text) LIBV(cJSON_free(c.res_text)); if (c.res_tree) LIBV(cJSON_Delete(c.res_tree));
            for (size_t i = 0; i < c.args.size(); i++) if (!c.arg_consumed[i]) LIBV(cJSON_Delete(c.args[i]));
            // trees that hold references are deleted before the trees they borrow from
            for (auto t : c.trees) LIBV(cJSON_Delete(t));
            if (L.errors) VIO("allocator-misuse", std::string(L.first_error) + " (during cleanup)");
            else if (ledger_live() != base) VIO("leak", "after deleting every tree the allocation balance is " + std::to_string(ledger_live() - base));
        }
        if (o.violated) ledger_forget_all();
        L.errors = 0; install_hooks(HK_DEFAULT);
        return o;
    }

    void enumerate(const std::string& stage) override {
        bool from = stage == "from_k_on";
        if (stage == "double") {   // deviation bound 2: every pair of refused requests
            for (size_t si = 0; si < S.size(); si++) for (int hk = 0; hk < 2; hk++) {
                Obs clean = execute(S[si], hk, 0, false, false, nullptr); uint64_t N = clean.requests > 40 ? 40 : clean.requests;
                for (uint64_t k1 = 1; k1 <= N; k1++) { if (!pool_take()) continue; for (uint64_t k2 = k1 + 1; k2 <= N + 1; k2++) { static Case c; c.kind = 0; c.iv[1] = (int64_t)si; c.iv[2] = hk; c.iv[3] = (int64_t)k1; c.iv[4] = 0; c.iv[5] = (int64_t)k2; c.set(S[si].name); pool_run(c); } }
            }
            return;
        }
        for (size_t si = 0; si < S.size(); si++) for (int hk = 0; hk < 2; hk++) {
            Obs clean = execute(S[si], hk, 0, false, false, nullptr);
            for (uint64_t k = 1; k <= clean.requests + 1; k++) {
                if (!pool_take()) continue;
                static Case c; c.kind = 0; c.iv[1] = (int64_t)si; c.iv[2] = hk; c.iv[3] = (int64_t)k; c.iv[4] = from; c.iv[5] = 0; c.set(S[si].name); pool_run(c);
            }
        }
    }
    void run_case(const Case& c, bool vb) override {
        verbose = vb; if (S.empty()) S = scenarios();
        size_t si = (size_t)c.iv[1]; if (si >= S.size()) return;
        Obs clean = execute(S[si], (int)c.iv[2], 0, false, false, nullptr);
        if (clean.failed && S[si].name != "DetachItemFromObject" ) { /* fault-free run must succeed */ }
        Obs o = execute(S[si], (int)c.iv[2], (uint64_t)c.iv[3], c.iv[4] != 0, true, &clean, (uint64_t)c.iv[5]);
        ctr().compared++; ctr().extra[4] += clean.requests;
        if (o.fired) { ctr().extra[0]++; if (o.failed) { ctr().extra[1]++; ctr().nontrivial++; } else ctr().extra[2]++; } else ctr().extra[3]++;
        if (c.iv[3] == 1) ctr().extra[5]++;
        note_outcome((uint64_t)o.fired | (uint64_t)o.failed << 1 | (uint64_t)c.iv[2] << 2 | (uint64_t)(clean.requests > 20 ? 20 : clean.requests) << 3);
    }
    std::string describe(const Case& c) override { return c.str() + " [" + (c.iv[2] ? "custom hooks" : "default allocator+realloc") + "] refuse request " + std::to_string(c.iv[3]) + (c.iv[4] ? " and all later" : ""); }
    void finish(std::map<std::string, std::string>& x) override {
        x["rule"] = jstr("one case = (scenario, allocator configuration, index k of the refused allocation request); k ranges over 1..N+1 where N is the number of requests the scenario makes (measured by a fault-free run); "
                         "non-trivial = the fault fired and the call reported failure; distinct by construction (each triple enumerated once); scenarios include every old x new length of SetValuestring over {0,1,10,63,64,255,256,257,300,1000,5000} and parses of tokens longer than any fixed buffer");
        x["bounds"] = jstr(std::to_string(scenarios().size()) + " scenarios x 2 allocator configurations x every request index; thorough adds 'every request from k on refused'");
    }
};
} // namespace
int main(int argc, char** argv) { XFault e; return engine_main(argc, argv, e); }
