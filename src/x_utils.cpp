// x_utils: cJSON_Utils against reference evaluators. C15 pointer resolution/construction, C16 patch application,
// C17 patch generation, C18 merge patch application/generation. All spaces are enumerated completely.
#include "sup.hpp"
#include "trees.hpp"
#include "ref_rfc.hpp"
#include <math.h>
using namespace vf;

namespace {
enum UMode { U_POINTER, U_PATCH, U_GENERATE, U_MERGE };
enum { K_RESOLVE = 0, K_CONSTRUCT = 1, K_PATCH = 2, K_GEN = 3, K_MERGE = 4, K_MGEN = 5, K_PTR_EDITS = 6 };

struct XUtils : Engine {
    UMode mode = U_POINTER; bool verbose = false; bool hooks_stage = false;
    std::vector<RV> D; std::vector<cJSON*> Dreal, DrealCS, DrealNamed; std::string built;
    const char* name() override { return "x_utils"; }
    std::vector<std::string> counter_names() override { return { "library_calls", "reference_success", "reference_failure", "open_cases", "patch_ops_generated", "append_probes", "nodes_round_tripped" }; }
    void init() { mode = cfg.prop == "C16" ? U_PATCH : cfg.prop == "C17" ? U_GENERATE : cfg.prop == "C18" ? U_MERGE : U_POINTER; }
    void worker_init() override { init(); }

    // ------------------------------------------------------------ document sets
    // length ladder: member names (and one string value) of every length 0..300 and around 512 / 1024, plain and with characters that
    // need escaping in a pointer; each document has a sibling name that differs only in the last character and one that is one longer
    static std::vector<int> ladder() { std::vector<int> v; for (int i = 0; i <= 300; i++) v.push_back(i); for (int i : { 511, 512, 513, 1023, 1024, 1025 }) v.push_back(i); return v; }
    static std::string ladder_key(int n, int pat) { std::string k; for (int i = 0; i < n; i++) k += (char)('a' + (i * 7 + 3) % 26); if (pat == 1 && n > 0) { k[(size_t)n / 2] = '/'; k[(size_t)n - 1] = '~'; if (n > 2) k[0] = '~'; } if (pat == 2) { for (int i = 0; i < n; i += 5) k[(size_t)i] = (char)(0x80 + (i * 11) % 0x7f); } return k; }
    static RV ladder_doc(int n, int pat) {
        std::string K = ladder_key(n, pat), K2 = K, K3 = K + "x"; if (n > 0) K2[(size_t)n - 1] = K2[(size_t)n - 1] == 'z' ? 'y' : 'z'; else K2 = "q";
        RV leaf = RV::mk(RV::Obj); leaf.obj.emplace_back(K, RV::number(4));
        RV arr = RV::mk(RV::Arr); arr.arr.push_back(RV::number(0)); arr.arr.push_back(leaf);
        RV inner = RV::mk(RV::Obj); if (pat == 3) { inner.obj.emplace_back(K3, RV::number(5)); inner.obj.emplace_back(K, arr); } else { inner.obj.emplace_back(K, arr); inner.obj.emplace_back(K3, RV::number(5)); }
        RV o = RV::mk(RV::Obj);
        if (pat == 3) { o.obj.emplace_back(K3, inner); o.obj.emplace_back(K2, RV::string(K)); o.obj.emplace_back(K, RV::number(1)); }   // the longer name first, its proper prefix last
        else { o.obj.emplace_back(K, RV::number(1)); o.obj.emplace_back(K2, RV::string(K)); o.obj.emplace_back(K3, inner); }
        return o;
    }
    // numbers whose integer views coincide (saturation at INT_MAX / INT_MIN, truncation of fractions) although the values differ; pairwise far apart
    static std::vector<double> awkward_numbers() { return { 0, 1, -1, 0.5, 1.5, -0.5, 2147483647.0, 2147483648.0, 2147483649.0, 3e9, 4e9, -2147483648.0, -2147483649.0, -3e9, -4e9, 1e15, 1e15 + 2, 1700000000000.0, 1700000360000.0, 1e30, 1e300, -1e30, -1e300 }; }
    static std::vector<RV> ladder_docs() { std::vector<RV> d; for (int n : ladder()) for (int pat = 0; pat < 4; pat++) { if (pat && pat != 3 && n == 0) continue; if (pat >= 2 && n > 70 && n % 16) continue; d.push_back(ladder_doc(n, pat)); } return d; }
    static std::vector<RV> docset(const std::string& which) {
        if (which == "len") return ladder_docs();
        TreeAlphabet al; al.max_arity = 3; al.max_depth = 3; al.dup_keys = false; std::vector<RV> d; int n = 3;
        if (which == "ptr") { al.leaves = { RV::number(1), RV::string("s") }; al.keys = { "a", "A", "0", "1", "01", "", "/", "~", "a/b", "m~n", "~0", "~1", "-", "\xc3\xa9", "\xff~" }; }
        else if (which == "ptr4") { al.leaves = { RV::number(1) }; al.keys = { "a", "0", "", "/", "~1" }; n = 4; }
        else if (which == "docs") { al.leaves = { RV::number(1), RV::string("s") }; al.keys = { "a", "A", "a/b", "" }; }
        else if (which == "doc4") { al.leaves = { RV::mk(RV::Null), RV::number(1), RV::string("s") }; al.keys = { "a", "A", "a/b", "" }; al.max_arity = 2; n = 4; }
        else { al.leaves = { RV::mk(RV::Null), RV::number(1), RV::number(1e-20), RV::number(3e-20), RV::string("s") }; al.keys = { "a", "A", "b", "a/b", "m~1", "" }; }
        d = enumerate_trees(al, n);
        if (which == "ptr" || which == "ptr4") {
            RV big = RV::mk(RV::Arr); for (int i = 0; i < 30; i++) big.arr.push_back(RV::number(i)); d.push_back(big);
            RV two = RV::mk(RV::Arr); two.arr = { RV::number(7), RV::string("x") }; d.push_back(two);
            if (which == "ptr") for (int shape = 0; shape < 2; shape++) { RV v = RV::number(5); for (int i = 0; i < CJSON_NESTING_LIMIT; i++) { RV w = RV::mk((shape + i) % 2 ? RV::Obj : RV::Arr); if (w.k == RV::Obj) w.obj.emplace_back("k", v); else w.arr.push_back(v); v = w; } d.push_back(v); }
            RV nest = RV::mk(RV::Obj); RV inner = RV::mk(RV::Arr); for (int i = 0; i < 12; i++) { RV o = RV::mk(RV::Obj); o.obj.emplace_back("k~/", RV::number(i)); inner.arr.push_back(o); } nest.obj.emplace_back("a/b", inner); d.push_back(nest);
        }
        if (which == "doc" || which == "merge") {
            // flat objects with three members in every order (the node bound above stops at two members)
            static const char* k3[] = { "a", "b", "c" }; int perm[6][3] = { {0,1,2},{0,2,1},{1,0,2},{1,2,0},{2,0,1},{2,1,0} };
            for (auto& pm : perm) for (int variant = 0; variant < 2; variant++) { RV o = RV::mk(RV::Obj); for (int i = 0; i < 3; i++) o.obj.emplace_back(k3[pm[i]], variant ? RV::string(k3[pm[i]]) : RV::number(pm[i] + 1)); d.push_back(o); }
            { RV o = RV::mk(RV::Obj); for (const char* k : { "d", "b", "a", "c" }) o.obj.emplace_back(k, RV::number(1)); d.push_back(o); }
        }
        if (which == "merge") {
            // nested objects whose keys differ only by case, and null members
            static const char* ks[] = { "a", "A", "b", "B", "z", "\xc3\xa9" }; std::vector<RV> vals = { RV::number(1), RV::number(2), RV::mk(RV::Null) };
            std::vector<RV> objs; objs.push_back(RV::mk(RV::Obj));
            for (auto k1 : ks) for (auto& v1 : vals) { RV o = RV::mk(RV::Obj); o.obj.emplace_back(k1, v1); objs.push_back(o); for (auto k2 : ks) if (std::string(k2) != k1) for (auto& v2 : vals) { RV p = o; p.obj.emplace_back(k2, v2); objs.push_back(p); } }
            for (auto& o : objs) { RV w = RV::mk(RV::Obj); w.obj.emplace_back("k", o); d.push_back(w); }
            for (auto& o : objs) if (o.obj.size() == 2) d.push_back(o);
        }
        return d;
    }
    // larger hand-written documents (deep nesting, long and awkward keys, 13-element arrays) and every single-edit mutation of them
    std::vector<std::pair<size_t, size_t>> bigpairs; size_t first_chain = 0, end_chain = 0, first_num = 0, end_num = 0;
    static void mutate(const RV& root, std::vector<RV>& out) {
        std::vector<std::vector<size_t>> paths; std::function<void(const RV&, std::vector<size_t>&)> rec = [&](const RV& v, std::vector<size_t>& p) { paths.push_back(p); size_t n = v.k == RV::Obj ? v.obj.size() : v.k == RV::Arr ? v.arr.size() : 0; for (size_t i = 0; i < n; i++) { p.push_back(i); rec(v.k == RV::Obj ? v.obj[i].second : v.arr[i], p); p.pop_back(); } };
        std::vector<size_t> p0; rec(root, p0);
        for (auto& p : paths) {
            for (const RV& leaf : { RV::number(7), RV::string("chg"), RV::mk(RV::Null), RV::mk(RV::Arr) }) { RV m = root; *rv_at(m, p) = leaf; out.push_back(m); }
            { RV m = root; RV* t = rv_at(m, p); if (t->k == RV::Obj) { t->obj.emplace_back("new/k~", RV::number(1)); out.push_back(m); RV m2 = root; RV* t2 = rv_at(m2, p); std::string fk = "0"; while (obj_get(*t2, fk)) fk += "0"; /* keys stay distinct per object */ t2->obj.insert(t2->obj.begin(), std::make_pair(fk, RV::string("front"))); out.push_back(m2); if (t->obj.size() > 2) { RV m3 = root; RV* t3 = rv_at(m3, p); std::swap(t3->obj[0], t3->obj[1]); out.push_back(m3); } }
              else if (t->k == RV::Arr) { t->arr.push_back(RV::number(99)); out.push_back(m); RV m2 = root; RV* t2 = rv_at(m2, p); t2->arr.insert(t2->arr.begin(), RV::string("front")); out.push_back(m2); if (t->arr.size() > 3) { RV m3 = root; RV* t3 = rv_at(m3, p); t3->arr.erase(t3->arr.begin() + 1); out.push_back(m3); RV m4 = root; RV* t4 = rv_at(m4, p); t4->arr.resize(1); out.push_back(m4); } } }
            if (!p.empty()) { RV m = root; std::vector<size_t> pp(p.begin(), p.end() - 1); RV* par = rv_at(m, pp); if (par->k == RV::Obj) par->obj.erase(par->obj.begin() + (long)p.back()); else par->arr.erase(par->arr.begin() + (long)p.back()); out.push_back(m); }
        }
    }
    void build_big() {
        if (built == "big") return; built = "big"; D.clear(); Dreal.clear(); DrealCS.clear(); DrealNamed.clear(); bigpairs.clear();
        static const char* texts[] = {
            "{\"name\":\"cJSON\",\"tags\":[\"a\",\"b\",\"c\",{\"deep\":{\"deeper\":{\"deepest\":[1,2,[3,[4,{\"k/ey\":\"v~al\"}]]]}}}],\"n\":1.5,\"t\":true,\"z\":null,\"long key with spaces and / slash ~ tilde ~0 ~1\":\"x\",\"\":{\"\":{\"\":0}}}",
            "[[[[[[1]]]]],[{\"a\":[{\"b\":[{\"c\":[]}]}]}],\"s\"]",
            "{\"a\":{\"b\":{\"c\":{\"d\":{\"e\":{\"f\":\"g\"}}}}},\"list\":[0,1,2,3,4,5,6,7,8,9,10,11,12],\"B\":1,\"b\":2}",
            "{\"z\":26,\"y\":25,\"x\":{\"w\":23,\"v\":[22,{\"u\":21,\"t\":20}]},\"A\":1,\"a\":2,\"\\u00e9\":3,\"_\":4,\"0\":5,\"01\":6,\"-\":7}",
            "\"plain string\"", "42", "[]", "{}" };
        for (auto t : texts) { RV v; if (!S_parse((const uint8_t*)t, strlen(t), v)) { fprintf(stderr, "bad big doc %s\n", t); abort(); } size_t oi = D.size(); D.push_back(v); std::vector<RV> ms; mutate(v, ms); for (auto& m : ms) { bigpairs.push_back({ oi, D.size() }); D.push_back(m); } }
        { RV e = RV::mk(RV::Obj); RV wide = RV::mk(RV::Obj); RV arr = RV::mk(RV::Arr); for (int i = 0; i < 10005; i++) arr.arr.push_back(RV::number(i)); wide.obj.emplace_back("w", arr); size_t a = D.size(); D.push_back(e); D.push_back(wide); bigpairs.push_back({ a, a + 1 });
          RV nested = RV::mk(RV::Arr); RV lvl = RV::mk(RV::Arr); for (int i = 0; i < 2600; i++) lvl.arr.push_back(RV::number(i)); for (int d = 0; d < 4; d++) { RV up = RV::mk(RV::Arr); up.arr.push_back(lvl); up.arr.push_back(lvl); lvl = up; } nested.arr.push_back(lvl); D.push_back(RV::mk(RV::Arr)); D.push_back(nested); bigpairs.push_back({ a + 2, a + 3 }); }
        // chains around the parser's nesting limit and beyond it (trees of any depth can be built through the API): arrays, objects, alternating;
        // partner documents differ only in the innermost value / have a member added or removed in the innermost container
        { auto nums = awkward_numbers(); size_t b0 = D.size(); for (double x : nums) { RV a = RV::mk(RV::Arr); a.arr.push_back(RV::number(x)); a.arr.push_back(RV::string("t")); D.push_back(a); RV o = RV::mk(RV::Obj); o.obj.emplace_back("a", RV::number(x)); D.push_back(o); }
          for (size_t i = 0; i < nums.size(); i++) for (size_t j = 0; j < nums.size(); j++) if (i != j && i < j) { bigpairs.push_back({ b0 + 2 * i, b0 + 2 * j }); bigpairs.push_back({ b0 + 2 * i + 1, b0 + 2 * j + 1 }); }
          first_num = b0; end_num = D.size(); }
        first_chain = D.size();
        for (int shape = 0; shape < (int)cfg.optl("chainshapes", 3); shape++) for (int depth : { 998, 999, 1000, 1001, 1002, 1500 }) {
            auto chain = [&](int variant) { RV v = variant == 1 ? RV::number(2) : RV::number(1);
                for (int i = 0; i < depth; i++) { bool obj = shape == 1 || (shape == 2 && i % 2 == 0); RV w = RV::mk(obj ? RV::Obj : RV::Arr);
                    if (obj) { w.obj.emplace_back("k", std::move(v)); if (i == 0 && variant == 2) w.obj.emplace_back("extra", RV::string("x")); if (i == 0 && variant == 3) { w.obj.clear(); w.obj.emplace_back("other", RV::number(1)); } }
                    else { w.arr.push_back(std::move(v)); if (i == 0 && variant >= 2) w.arr.push_back(RV::string("x")); }
                    v = std::move(w); }
                return v; };
            size_t a = D.size(); D.push_back(chain(0)); for (int variant = 1; variant <= 3; variant++) { bigpairs.push_back({ a, D.size() }); D.push_back(chain(variant)); } }
        end_chain = D.size();
        for (auto& v : ladder_docs()) { size_t oi = D.size(); D.push_back(v); std::vector<RV> ms; mutate(v, ms); for (auto& m : ms) { bigpairs.push_back({ oi, D.size() }); D.push_back(m); } }
        for (auto& v : D) Dreal.push_back(nullptr);   // built per case
    }
    void build(const std::string& which) {
        if (which == "big") { build_big(); return; }
        if (built == which) return; built = which; D = docset(which); Dreal.clear();
        for (auto& v : D) Dreal.push_back(build_tree(v));
        DrealCS.clear(); DrealNamed.clear(); if (mode == U_POINTER) for (auto& v : D) { DrealCS.push_back(build_tree_cs(v)); DrealNamed.push_back(build_tree_named(v)); }
    }
    std::string docs_for(const std::string& stage) {
        if (stage.compare(0, 3, "big") == 0) return "big";
        if (mode == U_POINTER) return stage == "lengths" || stage == "construct_lengths" ? "len" : stage == "resolve4" || stage == "construct4" ? "ptr4" : "ptr";
        if (mode == U_MERGE) return stage.find("4") != std::string::npos ? "doc4" : "merge";
        if (mode == U_PATCH) { if (stage == "single1" || stage == "single1_hooks" || stage == "single2full" || stage == "robust") return "doc"; if (stage == "single4") return "doc4"; return "docs"; }
        return stage.find("4") != std::string::npos ? "doc4" : "doc";
    }
    std::vector<std::string> stages() override {
        init(); bool T = cfg.thorough(); std::vector<std::string> st;
        switch (mode) {
            case U_POINTER: { long k = cfg.optl("ptrlen", T ? 5 : 4); for (long i = 0; i <= k; i++) st.push_back("resolve_len" + std::to_string(i)); st.push_back("resolve_special"); st.push_back("lengths"); st.push_back("construct_lengths"); st.push_back("construct"); st.push_back("after_edits"); if (T) { st.push_back("resolve4"); st.push_back("construct4"); } break; }
            case U_PATCH: st = { "single1", "single1_hooks", "indices", "casekeys", "numbers", "bigpatch", "single2", "robust", "pairs" }; if (T) { st.push_back("single2full"); st.push_back("single3"); st.push_back("single4"); } break;
            case U_GENERATE: st = { "big", "pairs" }; if (T) st.push_back("pairs4"); break;
            case U_MERGE: st = { "bigapply", "biggenerate", "apply", "generate" }; if (T) { st.push_back("apply4"); st.push_back("generate4"); } break;
        }
        return st;
    }

    // ------------------------------------------------------------ enumeration
    static RV mkop(const std::string& op, const std::string& path, const std::string* from, const RV* value) {
        RV o = RV::mk(RV::Obj); o.obj.emplace_back("op", RV::string(op)); o.obj.emplace_back("path", RV::string(path));
        if (from) o.obj.emplace_back("from", RV::string(*from)); if (value) o.obj.emplace_back("value", *value); return o;
    }
    static std::vector<std::string> token_paths(int maxtok) {
        static const char* toks[] = { "a", "A", "b", "a~1b", "m~01", "", "0", "1", "2", "-" }; std::vector<std::string> out = { "" }, cur = { "" };
        for (int l = 1; l <= maxtok; l++) { std::vector<std::string> nx; for (auto& p : cur) for (auto t : toks) nx.push_back(p + "/" + t); out.insert(out.end(), nx.begin(), nx.end()); cur = nx; }
        return out;
    }
    static std::vector<RV> patch_values() { RV a = RV::mk(RV::Arr); a.arr.push_back(RV::number(1)); RV o = RV::mk(RV::Obj); o.obj.emplace_back("a", RV::number(1)); return { RV::mk(RV::Null), RV::number(1), RV::number(3e-20), RV::string("s"), a, o }; }
    // pointers that exist in the document or can be inserted into it
    static void doc_paths(const RV& v, const std::string& pre, std::vector<std::string>& exist, std::vector<std::string>& insertable) {
        exist.push_back(pre);
        if (v.k == RV::Obj) { for (auto k : { "a", "A", "b", "a/b", "m~1", "" }) { bool have = false; for (auto& kv : v.obj) if (kv.first == k) have = true; if (!have) insertable.push_back(pre + "/" + ptr_encode_token(k)); } for (auto& kv : v.obj) doc_paths(kv.second, pre + "/" + ptr_encode_token(kv.first), exist, insertable); }
        if (v.k == RV::Arr) { for (size_t i = 0; i <= v.arr.size(); i++) insertable.push_back(pre + "/" + std::to_string(i)); insertable.push_back(pre + "/-"); for (size_t i = 0; i < v.arr.size(); i++) doc_paths(v.arr[i], pre + "/" + std::to_string(i), exist, insertable); }
    }
    void run_patch(size_t doc, const RV& patch) { static Case c; c.kind = K_PATCH; c.iv[1] = (int64_t)doc; c.iv[3] = hooks_stage; std::string s = rv_ser(patch); if (s.size() > sizeof c.data) return; c.set(s); ctr().extra[4]++; pool_run(c); }
    std::vector<RV> single_ops(const std::vector<std::string>& paths, const std::vector<std::string>& froms) {
        std::vector<RV> ops; auto vals = patch_values();
        for (auto& p : paths) { for (auto& v : vals) { ops.push_back(mkop("add", p, nullptr, &v)); ops.push_back(mkop("replace", p, nullptr, &v)); ops.push_back(mkop("test", p, nullptr, &v)); }
            ops.push_back(mkop("remove", p, nullptr, nullptr)); ops.push_back(mkop("add", p, nullptr, nullptr)); ops.push_back(mkop("replace", p, nullptr, nullptr)); ops.push_back(mkop("test", p, nullptr, nullptr));
            ops.push_back(mkop("move", p, nullptr, nullptr)); ops.push_back(mkop("copy", p, nullptr, nullptr));
            for (auto& f : froms) { ops.push_back(mkop("move", p, &f, nullptr)); ops.push_back(mkop("copy", p, &f, nullptr)); } }
        return ops;
    }

    void enumerate(const std::string& stage) override {
        init(); build(docs_for(stage));
        if (mode == U_POINTER) {
            if (stage.compare(0, 11, "resolve_len") == 0 || stage == "resolve4") {
                static const char A[] = { '/', '~', '0', '1', '2', 'a', 'A', '-' }; int len = stage == "resolve4" ? 4 : atoi(stage.c_str() + 11);
                for (int l = (stage == "resolve4" ? 0 : len); l <= len; l++) { std::vector<int> od(l, 0); std::string s((size_t)l, 0);
                    for (;;) { if (pool_take()) { for (int i = 0; i < l; i++) s[i] = A[od[i]]; static Case c; c.kind = K_RESOLVE; c.set(s); for (size_t d = 0; d < D.size(); d++) { c.iv[1] = (int64_t)d; pool_run(c); } } int i = l - 1; while (i >= 0 && ++od[i] == (int)sizeof A) od[i--] = 0; if (i < 0) break; } }
            } else if (stage == "resolve_special") {
                std::vector<std::string> sp;
                for (const char* t : { "01", "00", "1:", "1A", "+1", "1e0", "18446744073709551616", "18446744073709551617", "4294967296", "4294967297", " 1", "1 ", "-1", "0x1", "1.0", "29", "30", "10", "11", "9", "099", "1/", "a~", "~2", "~", "a~1b", "m~0n", "~01", "~10", "~00", "~11", "k~0~1", "k~/", "#", "#/a", "#/0", "#a", "%2F", "\\/a" })
                    for (const char* pre : { "/", "", "/0/", "/a/", "/a~1b/", "/a~1b/10/", "//", "/~1/" }) for (const char* post : { "", "/", "/0", "/a", "/k~0~1" }) sp.push_back(std::string(pre) + t + post);
                for (auto& s : sp) { if (!pool_take()) continue; static Case c; c.kind = K_RESOLVE; c.set(s); for (size_t d = 0; d < D.size(); d++) { c.iv[1] = (int64_t)d; pool_run(c); } }
            } else if (stage == "lengths") {
                // every existing location of the ladder documents, and near misses of each (one character short, one long, last character changed, one level too deep)
                for (size_t d = 0; d < D.size(); d++) { if (!pool_take()) continue; std::vector<std::string> ex, ins; doc_paths(D[d], "", ex, ins); std::vector<std::string> ps = ex; ps.insert(ps.end(), ins.begin(), ins.end());
                    for (auto& p : ex) { if (!p.empty()) { ps.push_back(p.substr(0, p.size() - 1)); std::string q = p; q[q.size() - 1] = 'Q'; ps.push_back(q); std::string r = p; r[r.size() / 2] = r[r.size() / 2] == 'Q' ? 'R' : 'Q'; ps.push_back(r); } ps.push_back(p + "x"); ps.push_back(p + "/0"); ps.push_back(p + "/"); }
                    static Case c; c.kind = K_RESOLVE; c.iv[1] = (int64_t)d; for (auto& p : ps) { if (p.size() > sizeof c.data) continue; c.set(p); pool_run(c); } }
            } else if (stage == "after_edits") {
                // lookup, edit the array, lookup again: resolution must follow the current contents (no state kept between calls)
                for (int i = 0; i <= 7; i++) for (int op = 0; op < 4; op++) for (int pos = 0; pos < 7; pos++) for (int j = 0; j <= 8; j++) { if (!pool_take()) continue; static Case c; c.kind = K_PTR_EDITS; c.iv[1] = i; c.iv[2] = op; c.iv[3] = pos; c.iv[4] = j; c.len = 0; pool_run(c); }
            } else { for (size_t d = 0; d < D.size(); d++) { if (!pool_take()) continue; static Case c; c.kind = K_CONSTRUCT; c.iv[1] = (int64_t)d; c.len = 0; pool_run(c); } }
            return;
        }
        if (mode == U_PATCH) {
            if (stage.compare(0, 6, "single") == 0) {
                hooks_stage = stage == "single1_hooks";
                int L = atoi(stage.c_str() + 6); bool four = L == 4; if (four) L = 2; if (stage == "single2full") L = 2;
                std::vector<std::string> paths = token_paths(L), froms = token_paths(L > 2 ? 2 : L);
                std::vector<RV> ops = single_ops(paths, froms);
                for (size_t d = 0; d < D.size(); d++) for (size_t chunk = 0; chunk < ops.size(); chunk += 64) { if (!pool_take()) continue; for (size_t o = chunk; o < ops.size() && o < chunk + 64; o++) { RV p = RV::mk(RV::Arr); p.arr.push_back(ops[o]); run_patch(d, p); } }
            } else if (stage == "casekeys") {
                // member names of an operation are case-sensitive: "OP", "Path", "From", "VALUE" are not the RFC members
                std::vector<RV> base; RV v1 = RV::number(1); std::string fa = "/a", fb = "/b";
                base.push_back(mkop("add", "/b", nullptr, &v1)); base.push_back(mkop("remove", "/a", nullptr, nullptr)); base.push_back(mkop("replace", "/a", nullptr, &v1)); base.push_back(mkop("test", "/a", nullptr, &v1)); base.push_back(mkop("move", "/b", &fa, nullptr)); base.push_back(mkop("copy", "/b", &fa, nullptr));
                std::vector<RV> docs2; for (const char* t : { "{\"a\":1}", "{\"a\":2,\"b\":3}", "{\"A\":1}", "[1]" }) { RV v; S_parse((const uint8_t*)t, strlen(t), v); docs2.push_back(v); }
                auto variants = [](const std::string& k) { std::vector<std::string> v; std::string up = k; for (auto& ch : up) ch = (char)toupper(ch); std::string cap = k; cap[0] = (char)toupper(cap[0]); std::string tail = k; tail[tail.size() - 1] = (char)toupper(tail[tail.size() - 1]); v = { up, cap, tail }; return v; };
                for (size_t d = 0; d < docs2.size(); d++) { if (!pool_take()) continue;
                    for (auto& op : base) for (size_t m = 0; m < op.obj.size(); m++) for (auto& nk : variants(op.obj[m].first)) for (int keep = 0; keep < 3; keep++) {
                        RV o2 = op; o2.obj[m].first = nk; if (keep == 1) o2.obj.push_back(op.obj[m]); /* variant first, real member after */ if (keep == 2) o2.obj.insert(o2.obj.begin(), std::make_pair(op.obj[m].first, op.obj[m].first == "op" ? RV::string("test") : op.obj[m].second)); /* real member first, variant after */
                        RV p = RV::mk(RV::Arr); p.arr.push_back(o2); static Case c; c.kind = K_PATCH; c.iv[1] = -1; c.iv[3] = 0; std::string ser = rv_ser(docs2[d]) + "\x1f" + rv_ser(p); c.set(ser); ctr().extra[4]++; pool_run(c); } }
            } else if (stage == "numbers") {
                // "test" (and replace + test) over every pair of numbers whose integer views coincide although the values differ
                auto nums = awkward_numbers();
                for (size_t i = 0; i < nums.size(); i++) { if (!pool_take()) continue; for (int shape = 0; shape < 2; shape++) { RV doc = RV::mk(shape ? RV::Obj : RV::Arr); if (shape) doc.obj.emplace_back("a", RV::number(nums[i])); else doc.arr.push_back(RV::number(nums[i])); std::string path = shape ? "/a" : "/0";
                    for (size_t j = 0; j < nums.size(); j++) { RV v = RV::number(nums[j]); RV nested = RV::mk(RV::Arr); nested.arr.push_back(v);
                        for (int form = 0; form < 3; form++) { RV p = RV::mk(RV::Arr); if (form == 1) { RV ne = RV::mk(RV::Arr); ne.arr.push_back(RV::number(nums[i])); p.arr.push_back(mkop("replace", path, nullptr, &ne)); p.arr.push_back(mkop("test", path, nullptr, &nested)); } else { p.arr.push_back(mkop("test", path, nullptr, &v)); if (form == 2) p.arr.push_back(mkop("remove", path, nullptr, nullptr)); }
                            static Case c; c.kind = K_PATCH; c.iv[1] = -1; c.iv[3] = 0; std::string ser = rv_ser(doc) + "\x1f" + rv_ser(p); c.set(ser); ctr().extra[4]++; pool_run(c); } } } }
            } else if (stage == "bigpatch") {
                // every operation on every existing / insertable location of the larger documents (paths up to 9 tokens deep)
                for (size_t d = 0; d < D.size(); d++) {
                    bool is_orig = true; for (auto& pr : bigpairs) if (pr.second == d) { is_orig = false; break; } if (!is_orig || (d >= first_chain && d < end_chain) || (d >= first_num && d < end_num)) continue;
                    std::vector<std::string> ex, ins; doc_paths(D[d], "", ex, ins); std::vector<std::string> all = ex; all.insert(all.end(), ins.begin(), ins.end());
                    std::vector<RV> ops; RV v1 = RV::number(1), v3 = RV::mk(RV::Obj);
                    for (auto& p : all) { ops.push_back(mkop("add", p, nullptr, &v1)); ops.push_back(mkop("add", p, nullptr, &v3)); }
                    for (auto& p : ex) { ops.push_back(mkop("remove", p, nullptr, nullptr)); ops.push_back(mkop("replace", p, nullptr, &v3)); ops.push_back(mkop("test", p, nullptr, rv_at(const_cast<RV&>(D[d]), path_of(D[d], p)))); ops.push_back(mkop("test", p, nullptr, &v1)); }
                    for (size_t a = 0; a < ex.size(); a += 1) for (size_t b = 0; b < all.size(); b += 3) { ops.push_back(mkop("move", all[b], &ex[a], nullptr)); ops.push_back(mkop("copy", all[b], &ex[a], nullptr)); }
                    for (size_t chunk = 0; chunk < ops.size(); chunk += 32) { if (!pool_take()) continue; for (size_t o = chunk; o < ops.size() && o < chunk + 32; o++) { RV p = RV::mk(RV::Arr); p.arr.push_back(ops[o]); static Case c; c.kind = K_PATCH; c.iv[1] = -1; c.iv[3] = 0; std::string ser = rv_ser(D[d]) + "\x1f" + rv_ser(p); if (ser.size() > sizeof c.data) continue; c.set(ser); ctr().extra[4]++; pool_run(c); } }
                }
            } else if (stage == "indices") {
                // array index tokens that must be rejected (or are just valid) in every operation and position
                std::vector<std::string> toks = { "18446744073709551616", "18446744073709551617", "18446744073709551615", "4294967296", "4294967297", "2147483648", "01", "00", "1e0", "-1", "+1", " 1", "1 ", "0x1", "1.0", "", "0", "1", "2", "3", "-" };
                std::vector<std::string> paths; for (auto& t : toks) { paths.push_back("/" + t); paths.push_back("/0/" + t); paths.push_back("/a/" + t); paths.push_back("/" + t + "/0"); }
                std::vector<std::string> froms = paths; froms.push_back("/0"); froms.push_back("/a"); froms.push_back("");
                std::vector<RV> ops = single_ops(paths, {}); RV v1 = RV::number(1);
                for (auto& p : paths) for (auto& f : froms) { ops.push_back(mkop("move", p, &f, nullptr)); ops.push_back(mkop("copy", p, &f, nullptr)); ops.push_back(mkop("move", f, &p, nullptr)); }
                std::vector<RV> docs2; for (const char* t : { "[1,2,3]", "[[1,2],[3]]", "{\"a\":[1,2,3]}", "[{\"a\":1},2]", "[]" }) { RV v; S_parse((const uint8_t*)t, strlen(t), v); docs2.push_back(v); }
                for (size_t d = 0; d < docs2.size(); d++) for (size_t chunk = 0; chunk < ops.size(); chunk += 64) { if (!pool_take()) continue; for (size_t o = chunk; o < ops.size() && o < chunk + 64; o++) { RV p = RV::mk(RV::Arr); p.arr.push_back(ops[o]); static Case c; c.kind = K_PATCH; c.iv[1] = -1; std::string ser = rv_ser(docs2[d]) + "\x1f" + rv_ser(p); if (ser.size() > sizeof c.data) continue; c.set(ser); ctr().extra[4]++; pool_run(c); } }
            } else if (stage == "pairs") {
                for (size_t d = 0; d < D.size(); d++) {
                    if (!pool_take()) continue;
                    std::vector<std::string> ex, ins; doc_paths(D[d], "", ex, ins); std::vector<std::string> all = ex; all.insert(all.end(), ins.begin(), ins.end());
                    std::vector<RV> ops; RV v1 = RV::number(1), v2 = RV::string("s"), v3 = RV::mk(RV::Obj);
                    for (auto& p : all) { ops.push_back(mkop("add", p, nullptr, p.size() % 2 ? &v1 : &v3)); }
                    for (auto& p : ex) { ops.push_back(mkop("remove", p, nullptr, nullptr)); ops.push_back(mkop("replace", p, nullptr, &v2)); ops.push_back(mkop("test", p, nullptr, rv_at(const_cast<RV&>(D[d]), path_of(D[d], p)))); for (auto& q : all) { ops.push_back(mkop("move", q, &p, nullptr)); ops.push_back(mkop("copy", q, &p, nullptr)); } }
                    for (auto& a : ops) for (auto& b : ops) { RV p = RV::mk(RV::Arr); p.arr.push_back(a); p.arr.push_back(b); run_patch(d, p); }
                }
            } else if (stage == "robust") {
                static const char* keys[] = { "op", "path", "from", "value", "x" };
                std::vector<RV> vals; for (const char* s : { "add", "remove", "replace", "move", "copy", "test", "bogus", "/a", "", "/0", "a", "~", "/a/b" }) vals.push_back(RV::string(s));
                for (auto& v : std::vector<RV>{ RV::mk(RV::Null), RV::mk(RV::True), RV::number(1), RV::mk(RV::Arr), RV::mk(RV::Obj) }) vals.push_back(v);
                std::vector<size_t> docs; for (size_t d = 0; d < D.size(); d += D.size() / 7 + 1) docs.push_back(d);
                int maxm = cfg.thorough() ? 4 : 3;
                std::function<void(RV&, int, size_t)> rec = [&](RV& o, int left, size_t d) {
                    { RV p = RV::mk(RV::Arr); p.arr.push_back(o); run_patch(d, p); if (o.obj.size() <= 1) run_patch(d, o); }
                    if (!left) return;
                    for (auto k : keys) { bool used = false; for (auto& kv : o.obj) if (kv.first == k) used = true; if (used) continue; for (auto& v : vals) { o.obj.emplace_back(k, v); rec(o, left - 1, d); o.obj.pop_back(); } }
                };
                for (size_t d : docs) for (auto k : keys) for (size_t vi = 0; vi < vals.size(); vi++) { if (!pool_take()) continue; RV o = RV::mk(RV::Obj); o.obj.emplace_back(k, vals[vi]); rec(o, maxm - 1, d); }
                for (size_t d : docs) { if (!pool_take()) continue; for (auto& v : vals) { run_patch(d, v); RV p = RV::mk(RV::Arr); p.arr.push_back(v); run_patch(d, p); } RV e = RV::mk(RV::Obj); run_patch(d, e); RV ea = RV::mk(RV::Arr); run_patch(d, ea); }
            }
            return;
        }
        if (stage.compare(0, 3, "big") == 0 && mode != U_PATCH) {
            int kind = mode == U_GENERATE ? K_GEN : (stage == "bigapply" ? K_MERGE : K_MGEN);
            for (auto& pr : bigpairs) { if (!pool_take()) continue; static Case c; c.kind = (uint32_t)kind; c.len = 0; c.iv[1] = (int64_t)pr.first; c.iv[2] = (int64_t)pr.second; pool_run(c); c.iv[1] = (int64_t)pr.second; c.iv[2] = (int64_t)pr.first; pool_run(c); }
            return;
        }
        // pair spaces (C17, C18)
        int kind = mode == U_GENERATE ? K_GEN : (stage.compare(0, 5, "apply") == 0 ? K_MERGE : K_MGEN);
        for (size_t i = 0; i < D.size(); i++) { if (!pool_take()) continue; static Case c; c.kind = (uint32_t)kind; c.len = 0; c.iv[1] = (int64_t)i; for (size_t j = 0; j < D.size(); j++) { c.iv[2] = (int64_t)j; pool_run(c); } }
    }
    static std::vector<size_t> path_of(const RV& doc, const std::string& ptr) { std::vector<std::string> t; std::vector<size_t> p; ptr_tokens(ptr, t); ptr_resolve(doc, t, p); return p; }

    // ------------------------------------------------------------ execution
    void V(const char* sig, const std::string& m) { violation(sig, m); }
    bool healthy(cJSON* t, const char* what, const std::string& ctx, const char* prefix) {
        // a tree that came out of a utility call must still behave like any other container
        Walk w = walk(t); if (!w.ok) { V((std::string(prefix) + ":malformed-after-call").c_str(), std::string(what) + " fails the structural walk after the call: " + w.err + " | " + ctx); return false; }
        if ((t->type & 0xFF) == cJSON_Array || (t->type & 0xFF) == cJSON_Object) {
            int before = LIB(cJSON_GetArraySize(t)); cJSON* probe = LIB(cJSON_CreateNumber(424242)); ctr().extra[5]++;
            bool ok = (t->type & 0xFF) == cJSON_Array ? LIB(cJSON_AddItemToArray(t, probe)) : LIB(cJSON_AddItemToObject(t, "zz-probe", probe));
            int after = LIB(cJSON_GetArraySize(t)); cJSON* last = LIB(cJSON_GetArrayItem(t, after - 1));
            if (!ok || after != before + 1 || last != probe) { V((std::string(prefix) + ":append-after-call-lost").c_str(), std::string(what) + ": appending after the call " + (ok ? "reported success but the container has " + std::to_string(after) + " items (had " + std::to_string(before) + ")" : "was refused") + " | " + ctx); if (!ok) LIBV(cJSON_Delete(probe)); return false; }
            cJSON* det = LIB(cJSON_DetachItemViaPointer(t, probe)); if (det != probe) { V((std::string(prefix) + ":detach-after-call").c_str(), std::string(what) + ": cannot detach the appended item again | " + ctx); return false; }
            LIBV(cJSON_Delete(probe));
            Walk w2 = walk(t); if (!w2.ok || w2.text != w.text) { V((std::string(prefix) + ":malformed-after-call").c_str(), std::string(what) + " changed by append+detach | " + ctx); return false; }
        }
        char* txt = LIB(cJSON_PrintUnformatted(t)); if (!txt) { V((std::string(prefix) + ":print-after-call").c_str(), std::string(what) + " cannot be printed | " + ctx); return false; } LIBV(cJSON_free(txt));
        return true;
    }

    void run_case(const Case& c, bool vb) override {
        init(); verbose = vb;
        if (built.empty()) { std::string st = cfg.opt.count("stage") ? cfg.opt["stage"] : ""; build(docs_for(st)); }
        long base = ledger_live(); L.errors = 0;
        bool hk = c.kind == K_PATCH && c.iv[3] != 0;
        if (hk) { install_hooks(HK_CUSTOM); ledger_reset_counters(); }
        struct Restore { bool on; ~Restore() { if (on) install_hooks(HK_DEFAULT); } } restore{hk};
        switch (c.kind) {
            case K_RESOLVE: do_resolve(c); break; case K_CONSTRUCT: do_construct(c); break; case K_PATCH: do_patch(c); break;
            case K_GEN: do_generate(c); break; case K_PTR_EDITS: do_ptr_edits(c); break; case K_MERGE: do_merge(c); break; case K_MGEN: do_mergegen(c); break;
        }
        if (hk && (L.libc_from_lib || L.reallocs)) V("memory:hooks-bypassed", "C library allocator used directly while custom hooks are installed (" + std::to_string(L.libc_from_lib) + " calls, " + std::to_string(L.reallocs) + " reallocs) | " + describe(c));
        if (L.errors) { V("memory:allocator-misuse", std::string(L.first_error) + " | " + describe(c)); L.errors = 0; }
        if (ledger_live() != base) { V("memory:leak", "allocation balance after the case is " + std::to_string(ledger_live() - base) + " | " + describe(c)); }
    }
    void before_stage(const std::string& stage) override { if (stage.find("replay:") == 0) cfg.opt["stage"] = stage.substr(7); }

    void do_resolve(const Case& c) {
        size_t d = (size_t)c.iv[1]; if (d >= D.size()) return; std::string p = c.str();
        if (memchr(p.data(), 0, p.size())) return;
        std::vector<std::string> toks; std::vector<size_t> path; const cJSON* expect = nullptr;
        if (ptr_tokens(p, toks) && ptr_resolve(D[d], toks, path)) expect = node_at(Dreal[d], path);
        cJSON* got = LIB(cJSONUtils_GetPointerCaseSensitive(Dreal[d], p.c_str())); ctr().calls++; ctr().compared++;
        if (d < DrealCS.size()) {   // the same document built with constant keys must resolve identically
            cJSON* got2 = LIB(cJSONUtils_GetPointerCaseSensitive(DrealCS[d], p.c_str())); ctr().calls++;
            const cJSON* expect2 = (ptr_tokens(p, toks) && ptr_resolve(D[d], toks, path)) ? node_at(DrealCS[d], path) : nullptr;
            if (got2 != expect2) V("pointer:constant-key-tree-differs", "pointer \"" + printable(p) + "\" resolves differently on the same document built with cJSON_AddItemToObjectCS: " + rv_text(D[d]).substr(0, 200));
        }
        if (d < DrealNamed.size()) {   // ... and so must the same document whose array elements carry stale member names
            cJSON* got3 = LIB(cJSONUtils_GetPointerCaseSensitive(DrealNamed[d], p.c_str())); ctr().calls++;
            const cJSON* expect3 = (ptr_tokens(p, toks) && ptr_resolve(D[d], toks, path)) ? node_at(DrealNamed[d], path) : nullptr;
            if (got3 != expect3) V("pointer:named-array-elements-differ", "pointer \"" + printable(p) + "\" resolves differently when the array elements carry (stale) member names: " + rv_text(D[d]).substr(0, 200));
        }
        if (expect) { ctr().extra[1]++; ctr().nontrivial++; } else ctr().extra[2]++;
        if (verbose) printf("  GetPointerCaseSensitive(%s, \"%s\") -> %s, reference: %s\n", rv_text(D[d]).substr(0, 100).c_str(), printable(p).c_str(), got ? wt(got).c_str() : "NULL", expect ? wt(expect).c_str() : "NULL");
        if (got != expect) V(expect ? (got ? "pointer:wrong-node" : "pointer:not-found") : "pointer:resolves-invalid", "pointer \"" + printable(p) + "\" on " + rv_text(D[d]).substr(0, 200) + " returned " + (got ? "node " + wt(got) : "NULL") + ", RFC 6901 designates " + (expect ? wt(expect) : "nothing"));
        note_outcome((uint64_t)(expect != nullptr) | (uint64_t)(got != nullptr) << 1 | (uint64_t)toks.size() << 2);
    }
    static std::string wt(const cJSON* n) { Walk w = walk(n, W_NO_OWNED); return w.ok ? w.text.substr(0, 80) : "?"; }
    void construct_rec(size_t d, const RV& v, const cJSON* n, const std::string& ptr, cJSON* root = nullptr, bool exact = true) {
        if (!root) root = Dreal[d];
        char* s = LIB(cJSONUtils_FindPointerFromObjectTo(root, n)); ctr().calls++; ctr().compared++; ctr().extra[6]++;
        if (!s) { V("pointer:construct-null", "FindPointerFromObjectTo returned NULL for a node inside the tree (expected \"" + printable(ptr) + "\") in " + rv_text(D[d]).substr(0, 200)); return; }
        if (exact && ptr != s) V("pointer:construct-wrong", "FindPointerFromObjectTo gave \"" + printable(s) + "\", expected \"" + printable(ptr) + "\" in " + rv_text(D[d]).substr(0, 200));
        cJSON* back = LIB(cJSONUtils_GetPointerCaseSensitive(root, s)); if (back != n) V("pointer:construct-not-inverse", "constructed pointer \"" + printable(s) + "\" does not resolve back to its node in " + rv_text(D[d]).substr(0, 200));
        LIBV(cJSON_free(s));
        const cJSON* ch = n->child;
        if (v.k == RV::Obj) for (auto& kv : v.obj) { construct_rec(d, kv.second, ch, ptr + "/" + ptr_encode_token(kv.first), root, exact); ch = ch->next; }
        if (v.k == RV::Arr) for (size_t i = 0; i < v.arr.size(); i++) { construct_rec(d, v.arr[i], ch, ptr + "/" + std::to_string(i), root, exact); ch = ch->next; }
    }
    void do_construct(const Case& c) {
        size_t d = (size_t)c.iv[1]; if (d >= D.size()) return; ctr().nontrivial++;
        construct_rec(d, D[d], Dreal[d], "");
        if (d < DrealCS.size()) construct_rec(d, D[d], DrealCS[d], "", DrealCS[d]);
        if (d < DrealNamed.size()) construct_rec(d, D[d], DrealNamed[d], "", DrealNamed[d]);
        // the same tree under a holder in which references to the tree and to its first child come first: whichever route the pointer takes (the children are
        // reachable through the references as well), it has to resolve back to the node itself, not to a reference node that merely shares its contents
        { cJSON* tree = build_tree(D[d]); cJSON* holder = LIB(cJSON_CreateObject()); LIBV(cJSON_AddItemReferenceToObject(holder, "alias", tree)); if (tree->child) LIBV(cJSON_AddItemReferenceToObject(holder, "alias-of-child", tree->child));
          cJSON* harr = LIB(cJSON_CreateArray()); LIBV(cJSON_AddItemReferenceToArray(harr, tree)); LIBV(cJSON_AddItemToObject(holder, "list", harr)); LIBV(cJSON_AddItemToObject(holder, "real", tree));
          construct_rec(d, D[d], tree, "/real", holder, false); LIBV(cJSON_Delete(holder)); }
        // once more with user-supplied allocation hooks installed (blocks with a header, no realloc): the constructed pointers must be the same, and
        // every block the construction uses has to come from and go back to the hooks -- a direct malloc/realloc/free on one of them corrupts the user's heap
        { uint64_t libc0 = L.libc_from_lib, re0 = L.reallocs; install_hooks(HK_CUSTOM);
          construct_rec(d, D[d], Dreal[d], ""); if (d < DrealNamed.size()) construct_rec(d, D[d], DrealNamed[d], "", DrealNamed[d]);
          bool bypass = L.libc_from_lib != libc0 || L.reallocs != re0; install_hooks(HK_DEFAULT);
          if (bypass) V("memory:hooks-bypassed", "FindPointerFromObjectTo used the C library allocator directly while custom hooks are installed (" + std::to_string(L.libc_from_lib - libc0) + " calls, " + std::to_string(L.reallocs - re0) + " reallocs) in " + rv_text(D[d]).substr(0, 200)); }
        size_t other = (d + 1) % D.size(); char* s = LIB(cJSONUtils_FindPointerFromObjectTo(Dreal[d], Dreal[other]));
        if (s) { V("pointer:construct-foreign", "FindPointerFromObjectTo returned \"" + printable(s) + "\" for a node outside the tree"); LIBV(cJSON_free(s)); }
        if (LIB(cJSONUtils_FindPointerFromObjectTo(nullptr, Dreal[d])) || LIB(cJSONUtils_FindPointerFromObjectTo(Dreal[d], nullptr))) V("pointer:construct-null-arg", "NULL argument accepted");
        if (LIB(cJSONUtils_GetPointerCaseSensitive(Dreal[d], nullptr)) || LIB(cJSONUtils_GetPointerCaseSensitive(nullptr, "/a"))) V("pointer:null-arg", "NULL argument resolved to a node");
    }

    void do_ptr_edits(const Case& c) {
        int i = (int)c.iv[1], op = (int)c.iv[2], pos = (int)c.iv[3], j = (int)c.iv[4];
        cJSON* doc = LIB(cJSON_Parse("{\"a\":[10,11,12,13,14,15],\"b\":[20,21]}")); cJSON* arr = LIB(cJSON_GetObjectItem(doc, "a")); std::vector<int> model = { 10, 11, 12, 13, 14, 15 };
        auto look = [&](int idx, const char* when) { char p[32]; snprintf(p, sizeof p, "/a/%d", idx); cJSON* g = LIB(cJSONUtils_GetPointerCaseSensitive(doc, p)); ctr().calls++; ctr().compared++;
            bool exp_ok = idx >= 0 && idx < (int)model.size(); if ((g != nullptr) != exp_ok || (g && (!cJSON_IsNumber(g) || g->valueint != model[idx]))) V("pointer:stale-after-edit", std::string("pointer ") + p + " " + when + " the edit returned " + (g ? "element " + std::to_string(g->valueint) : std::string("NULL")) + ", expected " + (exp_ok ? "element " + std::to_string(model[idx]) : std::string("NULL"))); };
        look(i, "before");
        if (op == 0 && pos < (int)model.size()) { LIBV(cJSON_DeleteItemFromArray(arr, pos)); model.erase(model.begin() + pos); }
        else if (op == 1) { int at = pos > (int)model.size() ? (int)model.size() : pos; LIBV(cJSON_InsertItemInArray(arr, at, LIB(cJSON_CreateNumber(99)))); model.insert(model.begin() + at, 99); }
        else if (op == 2 && pos < (int)model.size()) { LIBV(cJSON_ReplaceItemInArray(arr, pos, LIB(cJSON_CreateNumber(77)))); model[pos] = 77; }
        else if (op == 3) { cJSON* p = LIB(cJSON_Parse("[{\"op\":\"remove\",\"path\":\"/a/0\"},{\"op\":\"add\",\"path\":\"/a/-\",\"value\":55}]")); if (LIB(cJSONUtils_ApplyPatchesCaseSensitive(doc, p)) == 0) { model.erase(model.begin()); model.push_back(55); } LIBV(cJSON_Delete(p)); }
        look(j, "after"); look(i, "after"); ctr().nontrivial++;
        LIBV(cJSON_Delete(doc));
    }

    void do_patch(const Case& c) {
        RV inline_doc; RV patch; const RV* docp = nullptr;
        if (c.iv[1] < 0) { std::string s = c.str(); size_t sep = s.find('\x1f'); if (sep == std::string::npos || !rv_deser(s.substr(0, sep), inline_doc) || !rv_deser(s.substr(sep + 1), patch)) return; docp = &inline_doc; }
        else { size_t di = (size_t)c.iv[1]; if (di >= D.size() || !rv_deser(c.str(), patch)) return; docp = &D[di]; }
        const RV& DOC = *docp;
        int bvar = (int)(((uint64_t)(c.iv[1] + 1) + c.len) % 4);   // 1, 3: document and patch built with constant keys (flag bits in type); 2: array elements carry stale member names
        // 0: plain / plain, 1: constant keys / constant keys, 2: stale names on the document's array elements / plain patch, 3: constant keys / stale names on the patch's array elements
        cJSON* doc = bvar == 2 ? build_tree_named(DOC) : (bvar & 1) ? build_tree_cs(DOC) : build_tree(DOC); cJSON* pt = bvar == 3 ? build_tree_named(patch) : bvar == 1 ? build_tree_cs(patch) : build_tree(patch);
        if (cfg.opt.count("hooks_stage")) { }
        int status = LIB(cJSONUtils_ApplyPatchesCaseSensitive(doc, pt)); ctr().calls++;
        RV ref = DOC; PatchEval pe; PatchVerdict pv = pe.apply(ref, patch);
        std::string ctx = "document " + rv_text(DOC).substr(0, 150) + " patch " + rv_text(patch).substr(0, 300);
        if (verbose) { Walk w = walk(doc); printf("  ApplyPatchesCaseSensitive -> status %d, document now %s ; reference: %s %s\n", status, w.ok ? w.text.c_str() : w.err.c_str(), pv == P_OK ? "success" : pv == P_FAIL ? "failure" : "open", pv == P_OK ? rv_text(ref).c_str() : ""); }
        note_outcome((uint64_t)pv | (uint64_t)(status > 15 ? 15 : status) << 2);
        bool skip_walk = false;
        if (pv == P_OPEN) { ctr().extra[3]++; skip_walk = (doc->type & 0xFF) == cJSON_Invalid; }
        else {
            ctr().compared++;
            if (pv == P_OK) { ctr().extra[1]++; ctr().nontrivial++;
                bool to_root = false; for (auto& op : patch.arr) { const RV* o = obj_get(op, "op"); const RV* pa = obj_get(op, "path"); if (o && pa && o->k == RV::Str && pa->k == RV::Str && pa->str.empty() && (o->str == "move" || o->str == "copy")) to_root = true; }
                if (status != 0) V(to_root ? "patch:copy-move-to-whole-document-rejected" : "patch:valid-patch-rejected", "status " + std::to_string(status) + " although RFC 6902 evaluation succeeds (expected " + rv_text(ref).substr(0, 200) + ") | " + ctx);
                else { Walk w = walk(doc); if (w.ok && !rv_equal_sets(rv_from_tree(doc), ref)) { char* t = LIB(cJSON_PrintUnformatted(doc)); V("patch:wrong-result", std::string("document is ") + (t ? t : "?") + " but RFC 6902 gives " + rv_text(ref).substr(0, 200) + " | " + ctx); if (t) LIBV(cJSON_free(t)); } }
            } else { ctr().extra[2]++; if (status == 0) V("patch:invalid-patch-accepted", "status 0 although RFC 6902 evaluation fails | " + ctx); }
        }
        if (!skip_walk) { Walk w = walk(doc); if (!w.ok) V("patch:document-malformed", "document fails the structural walk after the call: " + w.err + " | " + ctx); else if (mode == U_PATCH && status == 0 && pv == P_OK) healthy(doc, "patched document", ctx, "patch"); }
        Walk wp = walk(pt); if (!wp.ok) V("patch:patch-malformed", "patch document malformed after the call: " + wp.err + " | " + ctx); else if (!rv_equal_sets(rv_from_tree(pt), patch)) V("patch:patch-modified", "patch document changed in value | " + ctx);
        LIBV(cJSON_Delete(doc)); LIBV(cJSON_Delete(pt));
    }

    void do_generate(const Case& c) {
        size_t i = (size_t)c.iv[1], j = (size_t)c.iv[2]; if (i >= D.size() || j >= D.size()) return;
        cJSON* from = ((i + j) % 4 == 1) ? build_tree_cs(D[i]) : ((i + j) % 4 == 3) ? build_tree_named(D[i]) : build_tree(D[i]); cJSON* to = ((i + j) % 4 == 2) ? build_tree_cs(D[j]) : ((i + j) % 4 == 3) ? build_tree_named(D[j]) : build_tree(D[j]); std::string ctx = "from " + rv_text(D[i]).substr(0, 150) + " to " + rv_text(D[j]).substr(0, 150);
        cJSON* patch = LIB(cJSONUtils_GeneratePatchesCaseSensitive(from, to)); ctr().calls++; ctr().compared++;
        bool equal = rv_equal_sets(D[i], D[j]); if (!equal) ctr().nontrivial++;
        if (!patch) { V("generate:null", "GeneratePatchesCaseSensitive returned NULL | " + ctx); LIBV(cJSON_Delete(from)); LIBV(cJSON_Delete(to)); return; }
        Walk wp = walk(patch);
        if (!wp.ok || (patch->type & 0xFF) != cJSON_Array) V("generate:patch-malformed", "generated patch is not a well-formed array | " + ctx);
        else {
            RV prv = rv_from_tree(patch); int n = LIB(cJSON_GetArraySize(patch));
            if (verbose) printf("  generated patch: %s\n", rv_text(prv).c_str());
            if ((n == 0) != equal) V(equal ? "generate:nonempty-for-equal" : "generate:empty-for-different", "patch has " + std::to_string(n) + " operations although the documents are " + (equal ? "equal" : "different") + " | " + ctx);
            // independent evaluator
            RV ref = D[i]; PatchEval pe; PatchVerdict pv = pe.apply(ref, prv); ctr().extra[1]++;
            if (pv != P_OK) V("generate:patch-invalid", "the reference RFC 6902 evaluator cannot apply the generated patch " + rv_text(prv).substr(0, 300) + " | " + ctx);
            else if (!rv_equal_sets(ref, D[j])) V("generate:patch-wrong", "generated patch " + rv_text(prv).substr(0, 300) + " turns the source into " + rv_text(ref).substr(0, 150) + " | " + ctx);
            // the library's own application
            cJSON* copy = build_tree(D[i]); int st = LIB(cJSONUtils_ApplyPatchesCaseSensitive(copy, patch)); ctr().calls++;
            if (st != 0) V("generate:library-cannot-apply", "ApplyPatchesCaseSensitive returns " + std::to_string(st) + " for the generated patch " + rv_text(prv).substr(0, 300) + " | " + ctx);
            else { Walk wc = walk(copy); if (!wc.ok) V("generate:result-malformed", wc.err + " | " + ctx); else if (!rv_equal_sets(rv_from_tree(copy), D[j])) V("generate:library-result-wrong", "applying the generated patch " + rv_text(prv).substr(0, 300) + " with the library gives " + rv_text(rv_from_tree(copy)).substr(0, 150) + " | " + ctx); }
            LIBV(cJSON_Delete(copy));
        }
        // inputs: equal in value, well-formed, still editable
        for (int k = 0; k < 2; k++) { cJSON* t = k ? to : from; const RV& v = k ? D[j] : D[i]; Walk w = walk(t);
            if (!w.ok) V("generate:input-malformed", std::string(k ? "'to'" : "'from'") + " fails the structural walk after generation: " + w.err + " | " + ctx);
            else { if (!rv_equal_sets(rv_from_tree(t), v)) V("generate:input-changed", std::string(k ? "'to'" : "'from'") + " changed in value | " + ctx); healthy(t, k ? "'to'" : "'from'", ctx, "generate"); } }
        LIBV(cJSON_Delete(patch)); LIBV(cJSON_Delete(from)); LIBV(cJSON_Delete(to));
    }

    void do_merge(const Case& c) {
        size_t i = (size_t)c.iv[1], j = (size_t)c.iv[2]; if (i >= D.size() || j >= D.size()) return;
        cJSON* target = ((i + j) % 4 == 1) ? build_tree_cs(D[i]) : ((i + j) % 4 == 3) ? build_tree_named(D[i]) : build_tree(D[i]); cJSON* patch = ((i + j) % 4 == 2) ? build_tree_cs(D[j]) : ((i + j) % 4 == 3) ? build_tree_named(D[j]) : build_tree(D[j]); std::string ctx = "target " + rv_text(D[i]).substr(0, 150) + " patch " + rv_text(D[j]).substr(0, 150);
        RV ref = merge_apply(D[i], D[j]);
        cJSON* res = LIB(cJSONUtils_MergePatchCaseSensitive(target, patch)); ctr().calls++; ctr().compared++; if (D[j].k == RV::Obj) ctr().nontrivial++;
        if (!res) V("merge:null", "MergePatchCaseSensitive returned NULL | " + ctx);
        else { Walk w = walk(res); if (!w.ok) V("merge:result-malformed", w.err + " | " + ctx); else { if (verbose) printf("  result %s reference %s\n", rv_text(rv_from_tree(res)).c_str(), rv_text(ref).c_str()); if (!rv_equal_sets(rv_from_tree(res), ref)) V("merge:wrong-result", "result " + rv_text(rv_from_tree(res)).substr(0, 200) + " but RFC 7396 gives " + rv_text(ref).substr(0, 200) + " | " + ctx); else healthy(res, "merge result", ctx, "merge"); } LIBV(cJSON_Delete(res)); }
        Walk wp = walk(patch); if (!wp.ok || !rv_equal_sets(rv_from_tree(patch), D[j])) V("merge:patch-modified", "the patch argument was modified | " + ctx);
        LIBV(cJSON_Delete(patch));
    }
    void do_mergegen(const Case& c) {
        size_t i = (size_t)c.iv[1], j = (size_t)c.iv[2]; if (i >= D.size() || j >= D.size()) return;
        if (has_null_member(D[j])) { ctr().extra[3]++; return; }
        cJSON* from = ((i + j) % 4 == 1) ? build_tree_cs(D[i]) : ((i + j) % 4 == 3) ? build_tree_named(D[i]) : build_tree(D[i]); cJSON* to = ((i + j) % 4 == 2) ? build_tree_cs(D[j]) : ((i + j) % 4 == 3) ? build_tree_named(D[j]) : build_tree(D[j]); std::string ctx = "from " + rv_text(D[i]).substr(0, 150) + " to " + rv_text(D[j]).substr(0, 150);
        cJSON* patch = LIB(cJSONUtils_GenerateMergePatchCaseSensitive(from, to)); ctr().calls++; ctr().compared++; ctr().nontrivial++;
        RV result = D[i];
        if (patch) { Walk wp = walk(patch); if (!wp.ok) V("mergegen:patch-malformed", wp.err + " | " + ctx); else { RV prv = rv_from_tree(patch); if (verbose) printf("  merge patch %s\n", rv_text(prv).c_str()); result = merge_apply(D[i], prv);
            if (!rv_equal_sets(result, D[j])) V("mergegen:patch-wrong", "generated merge patch " + rv_text(prv).substr(0, 200) + " turns the source into " + rv_text(result).substr(0, 150) + " (reference evaluation) | " + ctx);
            cJSON* copy = build_tree(D[i]); cJSON* r2 = LIB(cJSONUtils_MergePatchCaseSensitive(copy, patch)); if (!r2) V("mergegen:library-cannot-apply", "library cannot apply its own merge patch | " + ctx); else { if (!rv_equal_sets(rv_from_tree(r2), D[j])) V("mergegen:library-result-wrong", "applying the generated merge patch " + rv_text(prv).substr(0, 200) + " gives " + rv_text(rv_from_tree(r2)).substr(0, 150) + " | " + ctx); LIBV(cJSON_Delete(r2)); } }
            LIBV(cJSON_Delete(patch)); }
        else if (!rv_equal_sets(D[i], D[j])) V("mergegen:null-for-different", "NULL (no change) returned although the documents differ | " + ctx);
        for (int k = 0; k < 2; k++) { cJSON* t = k ? to : from; const RV& v = k ? D[j] : D[i]; Walk w = walk(t);
            if (!w.ok) V("mergegen:input-malformed", std::string(k ? "'to'" : "'from'") + " fails the structural walk after generation: " + w.err + " | " + ctx);
            else { if (!rv_equal_sets(rv_from_tree(t), v)) V("mergegen:input-changed", std::string(k ? "'to'" : "'from'") + " changed in value | " + ctx); healthy(t, k ? "'to'" : "'from'", ctx, "mergegen"); } }
        LIBV(cJSON_Delete(from)); LIBV(cJSON_Delete(to));
    }

    std::string describe(const Case& c) override {
        size_t i = (size_t)c.iv[1], j = (size_t)c.iv[2]; std::string di = i < D.size() ? rv_text(D[i]).substr(0, 120) : "#" + std::to_string(i), dj = j < D.size() ? rv_text(D[j]).substr(0, 120) : "#" + std::to_string(j);
        if (c.kind == K_PTR_EDITS) return "lookup /a/" + std::to_string(c.iv[1]) + ", edit kind " + std::to_string(c.iv[2]) + " at " + std::to_string(c.iv[3]) + ", lookup /a/" + std::to_string(c.iv[4]);
        switch (c.kind) { case K_RESOLVE: return "pointer \"" + printable(c.str()) + "\" on " + di; case K_CONSTRUCT: return "construct pointers in " + di; case K_PATCH: { if (c.iv[1] < 0) { std::string x = c.str(); size_t sep = x.find('\x1f'); RV dd, pp; if (sep != std::string::npos && rv_deser(x.substr(0, sep), dd) && rv_deser(x.substr(sep + 1), pp)) return "document " + rv_text(dd) + " patch " + rv_text(pp).substr(0, 200); return "?"; } RV p; rv_deser(c.str(), p); return "document " + di + " patch " + rv_text(p).substr(0, 200); } default: return di + " -> " + dj; }
    }
    void finish(std::map<std::string, std::string>& x) override {
        x["rule"] = jstr("ladders: member names / tokens / paths of every length 0..300 and around 512 and 1024 (plain, with escapes, non-ASCII), chains 998..1500 deep, awkward-number pairs, trees built plain / with constant keys / with stale member names on array elements; C15: all documents <= 3 nodes over 15 awkward keys x all pointer strings over {/,~,0,1,2,a,A,-} up to the length bound + special tokens; C16: documents x every single-operation patch over token paths, all two-operation patches over existing/insertable paths, all small JSON values as patch; "
                         "C17/C18: all ordered pairs of documents. Every case is compared with the RFC 6901/6902/7396 reference evaluator; non-trivial = cases where the reference designates a node / succeeds / documents differ");
    }
};
} // namespace
int main(int argc, char** argv) { XUtils e; return engine_main(argc, argv, e); }
