#include "sup.hpp"
#include <sys/mman.h>
#include <sys/wait.h>
#include <sys/stat.h>
#include <sys/time.h>
#include <unistd.h>
#include <fcntl.h>
#include <signal.h>
#include <errno.h>
#include <time.h>
#include <math.h>
#include <limits.h>
#include <algorithm>

extern "C" {
void* __real_malloc(size_t);
void  __real_free(void*);
void* __real_realloc(void*, size_t);
void* __real_calloc(size_t, size_t);
const char* __asan_default_options() {
    return "handle_segv=0:handle_sigbus=0:handle_abort=0:detect_leaks=0:exitcode=99:allocator_may_return_null=1:"
           "quarantine_size_mb=16:malloc_context_size=4:detect_stack_use_after_return=0:print_summary=1:"
           "symbolize=1:check_initialization_order=0:detect_odr_violation=0";
}
const char* __ubsan_default_options() { return "print_stacktrace=1:halt_on_error=1"; }
}

namespace vf {

thread_local int in_lib = 0;
LedgerStats L;
Config cfg;
HookCfg current_hooks = HK_DEFAULT;

// ------------------------------------------------------------------ ledger table (open addressing, no allocation)
namespace {
enum { TAB_BITS = 19, TAB_N = 1 << TAB_BITS };
struct Ent { const void* p; size_t size; uint32_t kind; };   // kind 1 = libc, 2 = hook; p==(void*)1 tombstone
Ent* tab = nullptr;
uint64_t fault_k = 0, fault_k2 = 0; bool fault_from = false; bool fault_fired = false; uint64_t fault_base = 0;
const uint64_t HK_MAGIC = 0xC15A11C0FFEE1234ull;

inline size_t hp(const void* p) { uint64_t x = (uint64_t)p; x ^= x >> 17; x *= 0x9E3779B97F4A7C15ull; return (size_t)(x >> (64 - TAB_BITS)); }
void tab_init() {
    if (tab) return;
    tab = (Ent*)mmap(nullptr, sizeof(Ent) * TAB_N, PROT_READ | PROT_WRITE, MAP_PRIVATE | MAP_ANONYMOUS, -1, 0);
}
Ent* tab_find(const void* p) {
    tab_init();
    size_t i = hp(p);
    for (size_t k = 0; k < TAB_N; k++, i = (i + 1) & (TAB_N - 1)) {
        if (tab[i].p == p) return &tab[i];
        if (tab[i].p == nullptr) return nullptr;
    }
    return nullptr;
}
void tab_add(const void* p, size_t size, uint32_t kind) {
    tab_init();
    size_t i = hp(p);
    for (size_t k = 0; k < TAB_N; k++, i = (i + 1) & (TAB_N - 1)) {
        if (tab[i].p == nullptr || tab[i].p == (void*)1) { tab[i].p = p; tab[i].size = size; tab[i].kind = kind; L.live++; return; }
    }
    ledger_error("ledger table full");
}
void tab_del(Ent* e) { e->p = (void*)1; L.live--; }
bool want_fail() {
    L.requests++;
    if (!fault_k) return false;
    uint64_t idx = L.requests - fault_base;
    if (idx == fault_k || (fault_k2 && idx == fault_k2) || (fault_from && idx > fault_k)) { fault_fired = true; return true; }
    return false;
}
} // namespace

void ledger_error(const char* what) {
    if (L.errors == 0) { strncpy(L.first_error, what, sizeof L.first_error - 1); L.first_error[sizeof L.first_error - 1] = 0; }
    L.errors++;
}
void ledger_reset_counters() { long live = L.live; memset(&L, 0, sizeof L); L.live = live; fault_k = 0; fault_fired = false; fault_base = 0; }
long ledger_live() { return L.live; }
void ledger_arm_fault(uint64_t k, bool from) { fault_k = k; fault_k2 = 0; fault_from = from; fault_fired = false; fault_base = L.requests; }
void ledger_arm_fault2(uint64_t k1, uint64_t k2) { fault_k = k1; fault_k2 = k2; fault_from = false; fault_fired = false; fault_base = L.requests; }
bool ledger_fault_fired() { return fault_fired; }
bool ledger_is_live(const void* p) { return p && tab_find(p) != nullptr; }
size_t ledger_block_size(const void* p) { Ent* e = tab_find(p); return e ? e->size : 0; }
void ledger_forget_all() { if (tab) memset(tab, 0, sizeof(Ent) * TAB_N); L.live = 0; }
std::vector<const void*> ledger_live_blocks() {
    std::vector<const void*> v; if (!tab) return v;
    for (size_t i = 0; i < TAB_N; i++) if (tab[i].p && tab[i].p != (void*)1) v.push_back(tab[i].p);
    return v;
}

void* hook_malloc(size_t n) {
    int saved = in_lib; in_lib = 0;
    void* r = nullptr;
    if (saved) {
        L.hook_allocs++; L.allocs++;
        if (!want_fail()) {
            uint64_t* raw = (uint64_t*)malloc(n + 16);
            if (raw) { raw[0] = HK_MAGIC; raw[1] = n; r = raw + 2; tab_add(r, n, 2); }
        }
    } else {
        uint64_t* raw = (uint64_t*)malloc(n + 16);
        if (raw) { raw[0] = HK_MAGIC; raw[1] = n; r = raw + 2; tab_add(r, n, 2); L.live--; /* harness-owned: not counted */ }
    }
    in_lib = saved;
    return r;
}
void hook_free(void* p) {
    int saved = in_lib; in_lib = 0;
    if (saved) { L.hook_frees++; L.frees++; }
    if (p) {
        Ent* e = tab_find(p);
        if (!e) ledger_error("custom free: pointer is not a live block (double free / foreign / interior pointer)");
        else if (e->kind != 2) ledger_error("custom free: block was obtained from the C library allocator, not from the custom malloc");
        else {
            uint64_t* raw = (uint64_t*)p - 2;
            if (raw[0] != HK_MAGIC || raw[1] != e->size) ledger_error("custom free: block header damaged (write before block)");
            tab_del(e); if (!saved) L.live++;
            raw[0] = 0xDEADDEADDEADDEADull;
            free(raw);
        }
    }
    in_lib = saved;
}
void* hook_malloc_thin(size_t n) {
    int saved = in_lib; in_lib = 0; void* r = nullptr;
    if (saved) { L.hook_allocs++; L.allocs++; if (!want_fail()) { r = __real_malloc(n); if (r) tab_add(r, n, 1); } }
    else r = __real_malloc(n);
    in_lib = saved; return r;
}
void hook_free_thin(void* p) {
    int saved = in_lib; in_lib = 0;
    if (saved) {
        L.hook_frees++; L.frees++;
        if (p) { Ent* e = tab_find(p); if (!e) ledger_error("free hook: pointer is not a live library block (double free / foreign pointer)"); else if (e->kind != 1) ledger_error("free hook: block belongs to the tagged custom allocator"); else { tab_del(e); __real_free(p); } }
    } else __real_free(p);
    in_lib = saved;
}
void install_hooks(HookCfg c) {
    cJSON_Hooks h; h.malloc_fn = nullptr; h.free_fn = nullptr;
    current_hooks = c;
    switch (c) {
        case HK_DEFAULT: cJSON_InitHooks(nullptr); break;
        case HK_CUSTOM: h.malloc_fn = hook_malloc; h.free_fn = hook_free; cJSON_InitHooks(&h); break;
        case HK_MALLOC_ONLY: h.malloc_fn = hook_malloc_thin; cJSON_InitHooks(&h); break;
        case HK_FREE_ONLY: h.free_fn = hook_free_thin; cJSON_InitHooks(&h); break;
        case HK_CUSTOM_THEN_MALLOC_ONLY: h.malloc_fn = hook_malloc; h.free_fn = hook_free; cJSON_InitHooks(&h); h.malloc_fn = hook_malloc_thin; h.free_fn = nullptr; cJSON_InitHooks(&h); break;
        case HK_CUSTOM_THEN_FREE_ONLY: h.malloc_fn = hook_malloc; h.free_fn = hook_free; cJSON_InitHooks(&h); h.malloc_fn = nullptr; h.free_fn = hook_free_thin; cJSON_InitHooks(&h); break;
        default: break;
        case HK_RESET_NULL: h.malloc_fn = hook_malloc; h.free_fn = hook_free; cJSON_InitHooks(&h); cJSON_InitHooks(nullptr); break;
        case HK_NULL_MEMBERS: h.malloc_fn = hook_malloc; h.free_fn = hook_free; cJSON_InitHooks(&h); h.malloc_fn = nullptr; h.free_fn = nullptr; cJSON_InitHooks(&h); break;
    }
}

} // namespace vf

extern "C" {
void* __wrap_malloc(size_t n) {
    if (!vf::in_lib) return __real_malloc(n);
    int saved = vf::in_lib; vf::in_lib = 0;
    vf::L.libc_from_lib++; vf::L.allocs++;
    void* r = nullptr;
    if (!vf::want_fail()) { r = __real_malloc(n); if (r) vf::tab_add(r, n, 1); }
    vf::in_lib = saved;
    return r;
}
void* __wrap_calloc(size_t a, size_t b) {
    if (!vf::in_lib) return __real_calloc(a, b);
    int saved = vf::in_lib; vf::in_lib = 0;
    vf::L.libc_from_lib++; vf::L.allocs++;
    void* r = nullptr;
    if (!vf::want_fail()) { r = __real_calloc(a, b); if (r) vf::tab_add(r, a * b, 1); }
    vf::in_lib = saved;
    return r;
}
void __wrap_free(void* p) {
    if (!vf::in_lib) { __real_free(p); return; }
    int saved = vf::in_lib; vf::in_lib = 0;
    vf::L.libc_from_lib++; vf::L.frees++;
    if (p) {
        vf::Ent* e = vf::tab_find(p);
        if (!e) vf::ledger_error("free: pointer is not a live library block (double free / foreign / borrowed / interior pointer)");
        else if (e->kind != 1) vf::ledger_error("free: block from the custom malloc hook released with the C library free");
        else { vf::tab_del(e); __real_free(p); }
    }
    vf::in_lib = saved;
}
void* __wrap_realloc(void* p, size_t n) {
    if (!vf::in_lib) return __real_realloc(p, n);
    int saved = vf::in_lib; vf::in_lib = 0;
    vf::L.libc_from_lib++; vf::L.reallocs++;
    void* r = nullptr;
    vf::Ent* e = p ? vf::tab_find(p) : nullptr;
    if (p && !e) { vf::ledger_error("realloc: pointer is not a live library block"); }
    else if (e && e->kind != 1) { vf::ledger_error("realloc: block from the custom malloc hook given to realloc"); }
    else if (!vf::want_fail()) {
        r = __real_realloc(p, n);
        if (r) { if (e) vf::tab_del(e); vf::tab_add(r, n, 1); }
    }
    vf::in_lib = saved;
    return r;
}
}

namespace vf {

// ------------------------------------------------------------------ guard maps
static uint8_t* map_view(int fd, size_t size, int prot) {
    long pg = sysconf(_SC_PAGESIZE);
    uint8_t* base = (uint8_t*)mmap(nullptr, size + 2 * pg, PROT_NONE, MAP_PRIVATE | MAP_ANONYMOUS, -1, 0);
    if (base == MAP_FAILED) { perror("mmap"); abort(); }
    uint8_t* v = (uint8_t*)mmap(base + pg, size, prot, MAP_SHARED | MAP_FIXED, fd, 0);
    if (v == MAP_FAILED) { perror("mmap view"); abort(); }
    return v;
}
void GuardMap::create(size_t bytes) {
    long pg = sysconf(_SC_PAGESIZE);
    size = (bytes + pg - 1) / pg * pg;
    int fd = memfd_create("vfguard", 0);
    if (fd < 0 || ftruncate(fd, (off_t)size) != 0) { perror("memfd"); abort(); }
    rw = map_view(fd, size, PROT_READ | PROT_WRITE);
    ro = map_view(fd, size, PROT_READ);
    close(fd);
}
uint8_t* GuardMap::place_end(const void* src, size_t n, const uint8_t** ro_out) {
    if (n > size) abort();
    uint8_t* d = rw + size - n; if (n) memcpy(d, src, n);
    if (ro_out) *ro_out = ro + size - n;
    return d;
}
uint8_t* GuardMap::place_begin(const void* src, size_t n, const uint8_t** ro_out) {
    if (n > size) abort();
    if (n) memcpy(rw, src, n);
    if (ro_out) *ro_out = ro;
    return rw;
}

// ------------------------------------------------------------------ small text helpers
std::string hex(const void* p, size_t n) {
    static const char* d = "0123456789abcdef"; std::string s; s.reserve(n * 2);
    for (size_t i = 0; i < n; i++) { uint8_t b = ((const uint8_t*)p)[i]; s += d[b >> 4]; s += d[b & 15]; }
    return s;
}
std::string unhex(const std::string& h) {
    std::string s; auto v = [](char c) { return c <= '9' ? c - '0' : (c | 32) - 'a' + 10; };
    for (size_t i = 0; i + 1 < h.size(); i += 2) s += (char)(v(h[i]) * 16 + v(h[i + 1]));
    return s;
}
std::string printable(const std::string& s) {
    std::string o; char b[8];
    for (unsigned char c : s) {
        if (c == '\\') o += "\\\\"; else if (c == '\n') o += "\\n"; else if (c == '\t') o += "\\t"; else if (c == '\r') o += "\\r";
        else if (c < 0x20 || c >= 0x7f) { snprintf(b, sizeof b, "\\x%02x", c); o += b; } else o += (char)c;
    }
    return o;
}
std::string jstr(const std::string& s) {
    std::string o = "\""; char b[8];
    for (unsigned char c : s) {
        if (c == '"') o += "\\\""; else if (c == '\\') o += "\\\\"; else if (c == '\n') o += "\\n"; else if (c == '\t') o += "\\t";
        else if (c < 0x20 || c >= 0x7f) { snprintf(b, sizeof b, "\\u%04x", c); o += b; } else o += (char)c;
    }
    return o + "\"";
}
double now_s() { struct timespec ts; clock_gettime(CLOCK_MONOTONIC, &ts); return ts.tv_sec + ts.tv_nsec * 1e-9; }

// ------------------------------------------------------------------ reference values
int saturate_int(double d) {
    if (d >= (double)INT_MAX) return INT_MAX;
    if (d <= (double)INT_MIN) return INT_MIN;
    return (int)d;
}
static bool same_num_bits(double a, double b) { return memcmp(&a, &b, sizeof a) == 0 || (a == 0 && b == 0); }
bool rv_equal_ordered(const RV& a, const RV& b) {
    if (a.k != b.k) return false;
    switch (a.k) {
        case RV::Num: return same_num_bits(a.num, b.num);
        case RV::Str: case RV::Raw: return a.str == b.str;
        case RV::Arr: if (a.arr.size() != b.arr.size()) return false;
            for (size_t i = 0; i < a.arr.size(); i++) if (!rv_equal_ordered(a.arr[i], b.arr[i])) return false;
            return true;
        case RV::Obj: if (a.obj.size() != b.obj.size()) return false;
            for (size_t i = 0; i < a.obj.size(); i++) if (a.obj[i].first != b.obj[i].first || !rv_equal_ordered(a.obj[i].second, b.obj[i].second)) return false;
            return true;
        default: return true;
    }
}
bool rv_equal_sets(const RV& a, const RV& b) {
    if (a.k != b.k) return false;
    switch (a.k) {
        case RV::Num: return a.num == b.num;
        case RV::Str: case RV::Raw: return a.str == b.str;
        case RV::Arr: if (a.arr.size() != b.arr.size()) return false;
            for (size_t i = 0; i < a.arr.size(); i++) if (!rv_equal_sets(a.arr[i], b.arr[i])) return false;
            return true;
        case RV::Obj: if (a.obj.size() != b.obj.size()) return false;
            for (auto& kv : a.obj) {
                const RV* other = nullptr;
                for (auto& kw : b.obj) if (kw.first == kv.first) { other = &kw.second; break; }
                if (!other || !rv_equal_sets(kv.second, *other)) return false;
            }
            return true;
        default: return true;
    }
}
static void rv_text_str(const std::string& s, std::string& o) {
    o += '"'; char b[8];
    for (unsigned char c : s) {
        if (c == '"') o += "\\\""; else if (c == '\\') o += "\\\\";
        else if (c < 0x20) { snprintf(b, sizeof b, "\\u%04x", c); o += b; } else o += (char)c;
    }
    o += '"';
}
static void rv_text_rec(const RV& v, std::string& o) {
    char b[40];
    switch (v.k) {
        case RV::Null: o += "null"; break; case RV::False: o += "false"; break; case RV::True: o += "true"; break;
        case RV::Num: snprintf(b, sizeof b, "%.17g", v.num); o += b; break;
        case RV::Str: rv_text_str(v.str, o); break;
        case RV::Raw: o += v.str; break;
        case RV::Arr: o += '['; for (size_t i = 0; i < v.arr.size(); i++) { if (i) o += ','; rv_text_rec(v.arr[i], o); } o += ']'; break;
        case RV::Obj: o += '{'; for (size_t i = 0; i < v.obj.size(); i++) { if (i) o += ','; rv_text_str(v.obj[i].first, o); o += ':'; rv_text_rec(v.obj[i].second, o); } o += '}'; break;
    }
}
std::string rv_text(const RV& v) { std::string o; rv_text_rec(v, o); return o; }

bool valid_utf8(const std::string& s) {
    size_t i = 0, n = s.size(); const unsigned char* p = (const unsigned char*)s.data();
    while (i < n) {
        unsigned c = p[i];
        if (c < 0x80) { i++; continue; }
        int len; unsigned cp, min;
        if ((c & 0xE0) == 0xC0) { len = 2; cp = c & 0x1F; min = 0x80; }
        else if ((c & 0xF0) == 0xE0) { len = 3; cp = c & 0x0F; min = 0x800; }
        else if ((c & 0xF8) == 0xF0) { len = 4; cp = c & 0x07; min = 0x10000; }
        else return false;
        if (i + len > n) return false;
        for (int k = 1; k < len; k++) { if ((p[i + k] & 0xC0) != 0x80) return false; cp = (cp << 6) | (p[i + k] & 0x3F); }
        if (cp < min || cp > 0x10FFFF || (cp >= 0xD800 && cp <= 0xDFFF)) return false;
        i += len;
    }
    return true;
}

// ------------------------------------------------------------------ S / L recognisers
namespace {
struct P {
    const uint8_t* p; size_t n; size_t i = 0; bool lenient; bool unknown = false; size_t depth = 0;
    int longnum = 0;   // number runs longer than 63 characters: 0 = no obligation (sets unknown), 1 = the first 63 characters are the token, 2 = the whole run is the token
    bool at(size_t k) const { return i + k < n; }
    uint8_t c(size_t k = 0) const { return p[i + k]; }
    void ws() {
        if (lenient) { while (i < n && p[i] <= 0x20) i++; }
        else { while (i < n && (p[i] == 0x20 || p[i] == 9 || p[i] == 10 || p[i] == 13)) i++; }
    }
};
int hexv(uint8_t c) { if (c >= '0' && c <= '9') return c - '0'; if (c >= 'a' && c <= 'f') return c - 'a' + 10; if (c >= 'A' && c <= 'F') return c - 'A' + 10; return -1; }
bool hex4(P& s, unsigned& out) {
    if (s.i + 4 > s.n) return false;
    unsigned v = 0;
    for (int k = 0; k < 4; k++) { int h = hexv(s.p[s.i + k]); if (h < 0) return false; v = v * 16 + (unsigned)h; }
    s.i += 4; out = v; return true;
}
void put_utf8(std::string& o, unsigned cp) {
    if (cp < 0x80) o += (char)cp;
    else if (cp < 0x800) { o += (char)(0xC0 | (cp >> 6)); o += (char)(0x80 | (cp & 0x3F)); }
    else if (cp < 0x10000) { o += (char)(0xE0 | (cp >> 12)); o += (char)(0x80 | ((cp >> 6) & 0x3F)); o += (char)(0x80 | (cp & 0x3F)); }
    else { o += (char)(0xF0 | (cp >> 18)); o += (char)(0x80 | ((cp >> 12) & 0x3F)); o += (char)(0x80 | ((cp >> 6) & 0x3F)); o += (char)(0x80 | (cp & 0x3F)); }
}
bool p_string(P& s, std::string& out) {
    if (s.i >= s.n || s.p[s.i] != '"') return false;
    s.i++; out.clear();
    for (;;) {
        if (s.i >= s.n) return false;
        uint8_t ch = s.p[s.i];
        if (ch == '"') { s.i++; break; }
        if (ch == '\\') {
            if (s.i + 1 >= s.n) return false;
            uint8_t e = s.p[s.i + 1]; s.i += 2;
            switch (e) {
                case '"': out += '"'; break; case '\\': out += '\\'; break; case '/': out += '/'; break;
                case 'b': out += '\b'; break; case 'f': out += '\f'; break; case 'n': out += '\n'; break;
                case 'r': out += '\r'; break; case 't': out += '\t'; break;
                case 'u': {
                    unsigned u; if (!hex4(s, u)) return false;
                    if (u >= 0xDC00 && u <= 0xDFFF) return false;
                    if (u >= 0xD800 && u <= 0xDBFF) {
                        if (s.i + 2 > s.n || s.p[s.i] != '\\' || s.p[s.i + 1] != 'u') return false;
                        s.i += 2; unsigned lo; if (!hex4(s, lo)) return false;
                        if (lo < 0xDC00 || lo > 0xDFFF) return false;
                        u = 0x10000 + (((u & 0x3FF) << 10) | (lo & 0x3FF));
                    }
                    if (u == 0 && !s.lenient) return false;   // outside the documented limits: no obligation
                    put_utf8(out, u);
                    break;
                }
                default: return false;
            }
            continue;
        }
        if (!s.lenient && ch < 0x20) return false;
        out += (char)ch; s.i++;
    }
    if (!s.lenient && !valid_utf8(out)) return false;
    return true;
}
bool isdig(uint8_t c) { return c >= '0' && c <= '9'; }
bool p_number(P& s, RV* out) {
    size_t st = s.i;
    if (!s.lenient) {
        size_t j = st;
        if (j < s.n && s.p[j] == '-') j++;
        if (j >= s.n || !isdig(s.p[j])) return false;
        if (s.p[j] == '0') j++; else while (j < s.n && isdig(s.p[j])) j++;
        if (j < s.n && s.p[j] == '.') { j++; if (j >= s.n || !isdig(s.p[j])) return false; while (j < s.n && isdig(s.p[j])) j++; }
        if (j < s.n && (s.p[j] == 'e' || s.p[j] == 'E')) {
            j++; if (j < s.n && (s.p[j] == '+' || s.p[j] == '-')) j++;
            if (j >= s.n || !isdig(s.p[j])) return false; while (j < s.n && isdig(s.p[j])) j++;
        }
        // a strict number must not be directly followed by another number character (e.g. "01", "1.2.3", "1e5e")
        if (j < s.n && (isdig(s.p[j]) || s.p[j] == '.' || s.p[j] == 'e' || s.p[j] == 'E' || s.p[j] == '+' || s.p[j] == '-')) return false;
        if (j - st > 63) return false;   // documented limit: no obligation
        char buf[80]; memcpy(buf, s.p + st, j - st); buf[j - st] = 0;
        if (out) *out = RV::number(strtod(buf, nullptr));
        s.i = j; return true;
    }
    // lenient: longest prefix of the maximal run of number characters that strtod would take
    size_t run = st; while (run < s.n && (isdig(s.p[run]) || s.p[run] == '+' || s.p[run] == '-' || s.p[run] == 'e' || s.p[run] == 'E' || s.p[run] == '.')) run++;
    if (run - st > 63) { if (s.longnum == 0) s.unknown = true; if (s.longnum != 2) run = st + 63; }
    size_t j = st; if (j < run && s.p[j] == '-') j++;
    size_t d1 = 0; while (j < run && isdig(s.p[j])) { j++; d1++; }
    size_t d2 = 0;
    if (j < run && s.p[j] == '.') { size_t k = j + 1; while (k < run && isdig(s.p[k])) { k++; d2++; } if (d1 + d2 > 0) j = k; }
    if (d1 + d2 == 0) return false;
    if (j < run && (s.p[j] == 'e' || s.p[j] == 'E')) {
        size_t k = j + 1; if (k < run && (s.p[k] == '+' || s.p[k] == '-')) k++;
        size_t d3 = 0; while (k < run && isdig(s.p[k])) { k++; d3++; }
        if (d3) j = k;
    }
    s.i = j; return true;
}
bool p_value(P& s, RV* out);
bool p_lit(P& s, const char* w) { size_t l = strlen(w); if (s.i + l <= s.n && memcmp(s.p + s.i, w, l) == 0) { s.i += l; return true; } return false; }
bool p_value(P& s, RV* out) {
    if (s.i >= s.n) return false;
    uint8_t ch = s.p[s.i];
    if (ch == 'n') { if (!p_lit(s, "null")) return false; if (out) *out = RV::mk(RV::Null); return true; }
    if (ch == 't') { if (!p_lit(s, "true")) return false; if (out) *out = RV::mk(RV::True); return true; }
    if (ch == 'f') { if (!p_lit(s, "false")) return false; if (out) *out = RV::mk(RV::False); return true; }
    if (ch == '"') { std::string str; if (!p_string(s, str)) return false; if (out) *out = RV::string(str); return true; }
    if (ch == '-' || isdig(ch)) return p_number(s, out);
    if (ch == '[') {
        if (s.depth >= CJSON_NESTING_LIMIT) return false;
        s.depth++; s.i++; s.ws();
        if (out) *out = RV::mk(RV::Arr);
        if (s.i < s.n && s.p[s.i] == ']') { s.i++; s.depth--; return true; }
        for (;;) {
            RV el; if (!p_value(s, out ? &el : nullptr)) return false;
            if (out) out->arr.push_back(std::move(el));
            s.ws();
            if (s.i >= s.n) return false;
            if (s.p[s.i] == ',') { s.i++; s.ws(); continue; }
            if (s.p[s.i] == ']') { s.i++; s.depth--; return true; }
            return false;
        }
    }
    if (ch == '{') {
        if (s.depth >= CJSON_NESTING_LIMIT) return false;
        s.depth++; s.i++; s.ws();
        if (out) *out = RV::mk(RV::Obj);
        if (s.i < s.n && s.p[s.i] == '}') { s.i++; s.depth--; return true; }
        for (;;) {
            std::string key; if (!p_string(s, key)) return false;
            s.ws(); if (s.i >= s.n || s.p[s.i] != ':') return false; s.i++; s.ws();
            RV el; if (!p_value(s, out ? &el : nullptr)) return false;
            if (out) out->obj.emplace_back(key, std::move(el));
            s.ws();
            if (s.i >= s.n) return false;
            if (s.p[s.i] == ',') { s.i++; s.ws(); continue; }
            if (s.p[s.i] == '}') { s.i++; s.depth--; return true; }
            return false;
        }
    }
    return false;
}
} // namespace

bool S_parse(const uint8_t* p, size_t n, RV& out) {
    P s{p, n}; s.lenient = false;
    s.ws(); if (!p_value(s, &out)) return false; s.ws();
    return s.i == n;
}
bool S_buffer(const uint8_t* p, size_t n, RV& out, bool* has_nul) {
    if (has_nul) *has_nul = false;
    if (n >= 3 && p[0] == 0xEF && p[1] == 0xBB && p[2] == 0xBF) { p += 3; n -= 3; }
    if (n > 0 && p[n - 1] == 0) { n--; if (has_nul) *has_nul = true; }
    return S_parse(p, n, out);
}
static Verdict L_buffer_mode(const uint8_t* p, size_t n, bool require_nul, int longnum) {
    // the BOM may or may not be skipped by a conforming implementation: accept if either reading is in L
    for (int bom = 0; bom < 2; bom++) {
        const uint8_t* q = p; size_t m = n;
        if (bom) { if (n >= 3 && p[0] == 0xEF && p[1] == 0xBB && p[2] == 0xBF) { q += 3; m -= 3; } else break; }
        P s{q, m}; s.lenient = true; s.longnum = longnum;
        s.ws();
        if (!p_value(s, nullptr)) { if (s.unknown) return UNKNOWN; continue; }
        if (s.unknown) return UNKNOWN;
        if (!require_nul) return ACCEPT;
        size_t j = s.i; bool ok = false;
        while (j < m && q[j] <= 0x20) { if (q[j] == 0) { ok = true; break; } j++; }
        if (ok) return ACCEPT;
    }
    return REJECT;
}
Verdict L_buffer(const uint8_t* p, size_t n, bool require_nul) {
    Verdict v = L_buffer_mode(p, n, require_nul, 0);
    if (v != UNKNOWN) return v;
    // a number run longer than 63 characters: the library may stop after 63 characters (what it does today) or read the whole token; a text
    // that is outside the dialect under both readings still has to be rejected
    if (L_buffer_mode(p, n, require_nul, 1) == REJECT && L_buffer_mode(p, n, require_nul, 2) == REJECT) return REJECT;
    return UNKNOWN;
}

bool RV_parse_lenient(const std::string& text, RV& out) {
    P s{(const uint8_t*)text.data(), text.size()}; s.lenient = true; s.ws();
    // numbers are not decoded by the lenient number scanner: decode here through strtod on the consumed span
    struct H { static bool val(P& s, RV& out) {
        if (s.i < s.n && (s.p[s.i] == '-' || isdig(s.p[s.i]))) { size_t st = s.i; if (!p_number(s, nullptr)) return false; std::string lit((const char*)s.p + st, s.i - st); out = RV::number(strtod(lit.c_str(), nullptr)); return true; }
        if (s.i < s.n && s.p[s.i] == '[') { s.i++; s.ws(); out = RV::mk(RV::Arr); if (s.i < s.n && s.p[s.i] == ']') { s.i++; return true; }
            for (;;) { RV e; if (!val(s, e)) return false; out.arr.push_back(e); s.ws(); if (s.i >= s.n) return false; if (s.p[s.i] == ',') { s.i++; s.ws(); continue; } if (s.p[s.i] == ']') { s.i++; return true; } return false; } }
        if (s.i < s.n && s.p[s.i] == '{') { s.i++; s.ws(); out = RV::mk(RV::Obj); if (s.i < s.n && s.p[s.i] == '}') { s.i++; return true; }
            for (;;) { std::string k; if (!p_string(s, k)) return false; s.ws(); if (s.i >= s.n || s.p[s.i] != ':') return false; s.i++; s.ws(); RV e; if (!val(s, e)) return false; out.obj.emplace_back(k, e); s.ws(); if (s.i >= s.n) return false; if (s.p[s.i] == ',') { s.i++; s.ws(); continue; } if (s.p[s.i] == '}') { s.i++; return true; } return false; } }
        return p_value(s, &out);
    } };
    if (!H::val(s, out)) return false; s.ws(); return s.i == s.n;
}
static void ser_rec(const RV& v, std::string& o) {
    char b[40];
    switch (v.k) {
        case RV::Null: o += 'n'; break; case RV::False: o += 'f'; break; case RV::True: o += 't'; break;
        case RV::Num: { uint64_t bits; memcpy(&bits, &v.num, 8); snprintf(b, sizeof b, "#%016llx", (unsigned long long)bits); o += b; break; }
        case RV::Str: case RV::Raw: snprintf(b, sizeof b, "%c%zu:", v.k == RV::Str ? 's' : 'r', v.str.size()); o += b; o += v.str; break;
        case RV::Arr: o += '['; for (auto& e : v.arr) ser_rec(e, o); o += ']'; break;
        case RV::Obj: o += '{'; for (auto& e : v.obj) { snprintf(b, sizeof b, "s%zu:", e.first.size()); o += b; o += e.first; ser_rec(e.second, o); } o += '}'; break;
    }
}
std::string rv_ser(const RV& v) { std::string o; ser_rec(v, o); return o; }
static bool deser_rec(const std::string& s, size_t& i, RV& out) {
    if (i >= s.size()) return false;
    char c = s[i++];
    switch (c) {
        case 'n': out = RV::mk(RV::Null); return true; case 'f': out = RV::mk(RV::False); return true; case 't': out = RV::mk(RV::True); return true;
        case '#': { if (i + 16 > s.size()) return false; uint64_t bits = strtoull(s.substr(i, 16).c_str(), nullptr, 16); i += 16; double d; memcpy(&d, &bits, 8); out = RV::number(d); return true; }
        case 's': case 'r': { size_t col = s.find(':', i); if (col == std::string::npos) return false; size_t len = (size_t)atol(s.substr(i, col - i).c_str()); if (col + 1 + len > s.size()) return false; out = RV::mk(c == 's' ? RV::Str : RV::Raw); out.str = s.substr(col + 1, len); i = col + 1 + len; return true; }
        case '[': out = RV::mk(RV::Arr); while (i < s.size() && s[i] != ']') { RV e; if (!deser_rec(s, i, e)) return false; out.arr.push_back(e); } if (i >= s.size()) return false; i++; return true;
        case '{': out = RV::mk(RV::Obj); while (i < s.size() && s[i] != '}') { RV k, e; if (!deser_rec(s, i, k) || k.k != RV::Str || !deser_rec(s, i, e)) return false; out.obj.emplace_back(k.str, e); } if (i >= s.size()) return false; i++; return true;
    }
    return false;
}
bool rv_deser(const std::string& s, RV& out) { size_t i = 0; return deser_rec(s, i, out) && i == s.size(); }

long L_value_end(const uint8_t* p, size_t n, bool skip_bom) {
    size_t off = 0; if (skip_bom && n >= 3 && p[0] == 0xEF && p[1] == 0xBB && p[2] == 0xBF) off = 3;
    P s{p + off, n - off}; s.lenient = true; s.ws();
    if (!p_value(s, nullptr) || s.unknown) return -1;
    return (long)(s.i + off);
}

// ------------------------------------------------------------------ walk
namespace {
void w_str(std::string& o, const char* s) { o += '"'; o += printable(s); o += '"'; }
void walk_rec(const cJSON* n, Walk& w, size_t depth, bool borrowed, int flags) {
    if (!w.ok) return;
    if (depth > 200000 || w.nodes > 4000000) { w.ok = false; w.err = "tree too deep/large (cycle?)"; return; }
    w.nodes++; if (depth > w.maxdepth) w.maxdepth = depth;
    int t = n->type & 0xFF, fl = n->type & ~0xFF;
    if (fl & ~(cJSON_IsReference | cJSON_StringIsConst)) { w.ok = false; w.err = "unknown flag bits in type"; return; }
    bool ref = (fl & cJSON_IsReference) != 0;
    if (!borrowed && !(flags & W_NO_OWNED)) w.owned.push_back(n);
    if (n->string) {
        w.text += 'k'; w_str(w.text, n->string); w.text += (fl & cJSON_StringIsConst) ? "$=" : "=";
        if (!(fl & cJSON_StringIsConst) && !borrowed && !(flags & W_NO_OWNED)) w.owned.push_back(n->string);
    }
    if (ref) w.text += '&';
    char b[64];
    switch (t) {
        case cJSON_NULL: w.text += 'N'; break;
        case cJSON_False: w.text += 'F'; break;
        case cJSON_True: w.text += 'T'; break;
        case cJSON_Number: {
            uint64_t bits; memcpy(&bits, &n->valuedouble, 8);
            if (n->valuedouble == 0) bits = 0;
            snprintf(b, sizeof b, "#%016llx/%d", (unsigned long long)bits, n->valueint); w.text += b; break;
        }
        case cJSON_String: case cJSON_Raw:
            if (!n->valuestring) { w.ok = false; w.err = "string/raw node without valuestring"; return; }
            w.text += (t == cJSON_String ? 'S' : 'R'); w_str(w.text, n->valuestring);
            if (!ref && !borrowed && !(flags & W_NO_OWNED)) w.owned.push_back(n->valuestring);
            break;
        case cJSON_Array: case cJSON_Object: break;
        default: w.ok = false; snprintf(b, sizeof b, "invalid type byte %d", t); w.err = b; return;
    }
    if (t != cJSON_Array && t != cJSON_Object) {
        if (n->child) { w.ok = false; w.err = "scalar node with children"; }
        return;
    }
    w.text += (t == cJSON_Array ? '[' : '{');
    const cJSON* c = n->child;
    if (c) {
        bool chain_borrowed = borrowed || ref;
        // direct reference containers (Create{Array,Object}Reference) borrow an arbitrary chain: no head/tail rule
        if (!ref) {
            if (!c->prev) { w.ok = false; w.err = "first child has NULL prev (should designate the last child)"; return; }
            if (c->prev->next != nullptr) { w.ok = false; w.err = "first child's prev is not the last child"; return; }
        }
        const cJSON* prev = nullptr; size_t cnt = 0;
        for (; c; prev = c, c = c->next) {
            if (++cnt > 4000000) { w.ok = false; w.err = "sibling chain does not end (cycle)"; return; }
            if (prev && c->prev != prev) { w.ok = false; w.err = "prev link does not mirror next link"; return; }
            if (t == cJSON_Object && !c->string && !ref) { w.ok = false; w.err = "object member without key"; return; }
            if (cnt > 1) w.text += ',';
            walk_rec(c, w, depth + 1, chain_borrowed, flags);
            if (!w.ok) return;
        }
        if (!ref && n->child->prev != prev) { w.ok = false; w.err = "first child's prev does not designate the last child"; return; }
    }
    w.text += (t == cJSON_Array ? ']' : '}');
}
} // namespace
Walk walk(const cJSON* root, int flags) {
    Walk w;
    if (!root) { w.ok = false; w.err = "NULL root"; return w; }
    if ((flags & W_ROOT_LINKS) && (root->next || root->prev)) { w.ok = false; w.err = "root/detached item has sibling links"; return w; }
    walk_rec(root, w, 0, false, flags);
    return w;
}
bool match_rv(const cJSON* n, const RV& v, std::string& why, bool check_int) {
    if (!n) { why = "NULL node"; return false; }
    int t = n->type & 0xFF;
    static const int tmap[] = { cJSON_NULL, cJSON_False, cJSON_True, cJSON_Number, cJSON_String, cJSON_Raw, cJSON_Array, cJSON_Object };
    if (t != tmap[v.k]) { why = "type differs"; return false; }
    switch (v.k) {
        case RV::Num:
            if (!same_num_bits(n->valuedouble, v.num)) { char b[100]; snprintf(b, sizeof b, "number %.17g, expected %.17g", n->valuedouble, v.num); why = b; return false; }
            if (check_int && n->valueint != saturate_int(v.num)) { char b[100]; snprintf(b, sizeof b, "valueint %d, expected %d for %.17g", n->valueint, saturate_int(v.num), v.num); why = b; return false; }
            return true;
        case RV::Str: case RV::Raw:
            if (!n->valuestring || strlen(n->valuestring) != v.str.size() || memcmp(n->valuestring, v.str.data(), v.str.size())) { why = "string bytes differ: got \"" + printable(n->valuestring ? n->valuestring : "(null)") + "\" expected \"" + printable(v.str) + "\""; return false; }
            return true;
        case RV::Arr: {
            const cJSON* c = n->child;
            for (size_t i = 0; i < v.arr.size(); i++, c = c->next) { if (!c) { why = "array shorter than expected"; return false; } if (!match_rv(c, v.arr[i], why, check_int)) return false; }
            if (c) { why = "array longer than expected"; return false; }
            return true;
        }
        case RV::Obj: {
            const cJSON* c = n->child;
            for (size_t i = 0; i < v.obj.size(); i++, c = c->next) {
                if (!c) { why = "object has fewer members than expected"; return false; }
                if (!c->string || v.obj[i].first != c->string) { why = "member key differs: got \"" + printable(c->string ? c->string : "(null)") + "\" expected \"" + printable(v.obj[i].first) + "\""; return false; }
                if (!match_rv(c, v.obj[i].second, why, check_int)) return false;
            }
            if (c) { why = "object has more members than expected"; return false; }
            return true;
        }
        default: return true;
    }
}
RV rv_from_tree(const cJSON* n) {
    RV v;
    switch (n->type & 0xFF) {
        case cJSON_NULL: v.k = RV::Null; break; case cJSON_False: v.k = RV::False; break; case cJSON_True: v.k = RV::True; break;
        case cJSON_Number: v.k = RV::Num; v.num = n->valuedouble; break;
        case cJSON_String: v.k = RV::Str; v.str = n->valuestring ? n->valuestring : ""; break;
        case cJSON_Raw: v.k = RV::Raw; v.str = n->valuestring ? n->valuestring : ""; break;
        case cJSON_Array: v.k = RV::Arr; { size_t g = 0; for (const cJSON* c = n->child; c && g < 1000000; c = c->next, g++) v.arr.push_back(rv_from_tree(c)); } break;
        case cJSON_Object: v.k = RV::Obj; { size_t g = 0; for (const cJSON* c = n->child; c && g < 1000000; c = c->next, g++) v.obj.emplace_back(c->string ? c->string : "", rv_from_tree(c)); } break;
        default: v.k = RV::Null; break;
    }
    return v;
}
cJSON* build_tree(const RV& v) {
    switch (v.k) {
        case RV::Null: return LIB(cJSON_CreateNull());
        case RV::False: return LIB(cJSON_CreateFalse());
        case RV::True: return LIB(cJSON_CreateTrue());
        case RV::Num: return LIB(cJSON_CreateNumber(v.num));
        case RV::Str: return LIB(cJSON_CreateString(v.str.c_str()));
        case RV::Raw: return LIB(cJSON_CreateRaw(v.str.c_str()));
        case RV::Arr: { cJSON* a = LIB(cJSON_CreateArray()); for (auto& e : v.arr) { cJSON* c = build_tree(e); LIBV(cJSON_AddItemToArray(a, c)); } return a; }
        case RV::Obj: { cJSON* o = LIB(cJSON_CreateObject()); for (auto& e : v.obj) { cJSON* c = build_tree(e.second); LIBV(cJSON_AddItemToObject(o, e.first.c_str(), c)); } return o; }
    }
    return nullptr;
}

cJSON* build_tree_cs(const RV& v) {
    switch (v.k) {
        case RV::Arr: { cJSON* a = LIB(cJSON_CreateArray()); for (auto& e : v.arr) { cJSON* c = build_tree_cs(e); LIBV(cJSON_AddItemToArray(a, c)); } return a; }
        case RV::Obj: { cJSON* o = LIB(cJSON_CreateObject()); for (auto& e : v.obj) { cJSON* c = build_tree_cs(e.second); LIBV(cJSON_AddItemToObjectCS(o, e.first.c_str(), c)); } return o; }
        default: return build_tree(v);
    }
}

// array elements that keep a member name from an earlier life as object member (AddItemToObject, DetachItemViaPointer, AddItemToArray):
// the name is an index token of another position or a key that is common in the documents, so code that trusts it goes visibly wrong
void give_stale_name(cJSON* item, const char* name) {
    cJSON* tmp = LIB(cJSON_CreateObject()); LIBV(cJSON_AddItemToObject(tmp, name, item)); LIB(cJSON_DetachItemViaPointer(tmp, item)); LIBV(cJSON_Delete(tmp));
}
cJSON* build_tree_named(const RV& v) {
    switch (v.k) {
        case RV::Arr: { cJSON* a = LIB(cJSON_CreateArray()); size_t i = 0, n = v.arr.size(); for (auto& e : v.arr) { cJSON* c = build_tree_named(e); give_stale_name(c, i % 3 == 2 ? "a" : std::to_string((i + 1) % (n + 1)).c_str()); LIBV(cJSON_AddItemToArray(a, c)); i++; } return a; }
        case RV::Obj: { cJSON* o = LIB(cJSON_CreateObject()); for (auto& e : v.obj) { cJSON* c = build_tree_named(e.second); LIBV(cJSON_AddItemToObject(o, e.first.c_str(), c)); } return o; }
        default: return build_tree(v);
    }
}

// ------------------------------------------------------------------ worker pool
namespace {
struct Slot {
    volatile uint64_t case_no; volatile int running; volatile int done; volatile int deadline; volatile int pid;
    Counters c;
    uint64_t outcomes[256]; int n_outcomes;
    char samples[3][400]; int nsamples;
    uint64_t nviol;
    Case cur;
};
Slot* slots = nullptr; int g_wid = -1; int g_nw = 1; long long g_resume_after = -1; uint64_t g_idx = 0; bool g_stop = false;
Engine* g_engine = nullptr; bool g_replay = false; int g_replay_viol = 0; const Case* g_cur = nullptr;
Counters g_replay_ctr; FILE* g_emit = nullptr; std::string g_stage;
uint64_t g_cur_idx = 0; int g_viol_files = 0;
std::set<uint64_t> g_outcomes_local;

std::string slurp(const std::string& path, size_t max = 1 << 20) {
    std::string s; FILE* f = fopen(path.c_str(), "rb"); if (!f) return s;
    char buf[4096]; size_t r; while ((r = fread(buf, 1, sizeof buf, f)) > 0 && s.size() < max) s.append(buf, r);
    fclose(f); return s;
}
void write_replay(const std::string& path, const Case& c, const std::string& sig, const std::string& msg) {
    FILE* f = fopen(path.c_str(), "w"); if (!f) return;
    fprintf(f, "engine %s\nprop %s\ntier %s\nstage %s\nkind %u\niv", g_engine->name(), cfg.prop.c_str(), cfg.tier.c_str(), g_stage.c_str(), c.kind);
    for (int i = 0; i < 12; i++) fprintf(f, " %lld", (long long)c.iv[i]);
    fprintf(f, "\ndata %s\nsig %s\n", hex(c.data, c.len).c_str(), sig.c_str());
    std::string m = msg; for (auto& ch : m) if (ch == '\n') ch = ' ';
    fprintf(f, "msg %s\ncase %s\n", m.c_str(), g_engine->describe(c).c_str());
    for (auto& kv : cfg.opt) fprintf(f, "opt %s=%s\n", kv.first.c_str(), kv.second.c_str());
    fclose(f);
}
bool read_replay(const std::string& path, Case& c, std::string& stage) {
    std::string s = slurp(path); if (s.empty()) return false;
    size_t pos = 0;
    while (pos < s.size()) {
        size_t e = s.find('\n', pos); if (e == std::string::npos) e = s.size();
        std::string line = s.substr(pos, e - pos); pos = e + 1;
        size_t sp = line.find(' '); std::string k = line.substr(0, sp), v = sp == std::string::npos ? "" : line.substr(sp + 1);
        if (k == "kind") c.kind = (uint32_t)atol(v.c_str());
        else if (k == "iv") { char* q = (char*)v.c_str(); for (int i = 0; i < 12; i++) c.iv[i] = strtoll(q, &q, 10); }
        else if (k == "data") c.set(unhex(v));
        else if (k == "stage") stage = v;
        else if (k == "prop") cfg.prop = v;
        else if (k == "tier") cfg.tier = v;
        else if (k == "opt") { size_t eq = v.find('='); if (eq != std::string::npos) cfg.opt[v.substr(0, eq)] = v.substr(eq + 1); }
    }
    return true;
}
} // namespace

Counters& ctr() { return (g_replay || g_wid < 0) ? g_replay_ctr : slots[g_wid].c; }
bool deadline_hit() { return now_s() - cfg.start_time > cfg.deadline_s; }
void note_outcome(uint64_t code) {
    if (g_replay) return;
    if (g_outcomes_local.insert(code).second) { Slot& s = slots[g_wid]; if (s.n_outcomes < 256) s.outcomes[s.n_outcomes++] = code; }
}
bool pool_take() {
    uint64_t idx = g_idx++;
    if (g_stop) return false;
    if ((int)(idx % (uint64_t)g_nw) != g_wid) return false;
    if ((long long)idx <= g_resume_after) return false;
    if ((idx / g_nw) % 64 == 0 && deadline_hit()) { g_stop = true; slots[g_wid].deadline = 1; return false; }
    g_cur_idx = idx;
    return true;
}
void pool_run(const Case& c) {
    Slot& s = slots[g_wid];
    memcpy((void*)&s.cur, &c, offsetof(Case, data) + c.len);
    s.case_no = g_cur_idx; s.running = 1;
    g_cur = &c;
    if (s.nsamples < 3 && (s.c.cases % 997) == (uint64_t)(s.nsamples * 331 % 997)) { std::string d = g_engine->describe(c); snprintf(s.samples[s.nsamples++], 400, "%s", d.c_str()); }
    g_engine->run_case(c, false);
    s.c.cases++;
    s.running = 0;
}
void violation(const std::string& sig, const std::string& msg) {
    if (g_replay) { g_replay_viol++; printf("  VIOLATION-DETAIL signature=%s :: %s\n", sig.c_str(), msg.c_str()); return; }
    Slot& s = slots[g_wid]; s.nviol++;
    std::string path;
    static std::map<std::string, int> per_sig;   // a few replay files per signature, so that a frequent (e.g. known) signature cannot use up the files
    if (per_sig[sig] < 3 && per_sig.size() <= 40 && ++per_sig[sig]) {
        char b[512]; snprintf(b, sizeof b, "%s/replay/%s-%s-w%d-%d.txt", cfg.outdir.c_str(), cfg.prop.c_str(), g_stage.c_str(), g_wid, g_viol_files++);
        path = b; write_replay(path, *g_cur, sig, msg);
    }
    char f[512]; snprintf(f, sizeof f, "%s/w%d.viol", cfg.outdir.c_str(), g_wid);
    FILE* o = fopen(f, "a"); if (o) { std::string m = msg; for (auto& ch : m) if (ch == '\n' || ch == '\t') ch = ' '; fprintf(o, "%s\t%s\t%s\n", sig.c_str(), path.c_str(), m.c_str()); fclose(o); }
}
void worker_emit(const std::string& line) {
    if (g_replay) return;
    if (!g_emit) { char f[512]; snprintf(f, sizeof f, "%s/w%d.emit", cfg.outdir.c_str(), g_wid); g_emit = fopen(f, "a"); }
    if (g_emit) { fwrite(line.data(), 1, line.size(), g_emit); fputc('\n', g_emit); }
}
std::vector<std::string> collect_emitted() {
    std::vector<std::string> out;
    for (int w = 0; w < cfg.jobs; w++) {
        char f[512]; snprintf(f, sizeof f, "%s/w%d.emit", cfg.outdir.c_str(), w);
        std::string s = slurp(f, (size_t)1 << 34); size_t pos = 0;
        while (pos < s.size()) { size_t e = s.find('\n', pos); if (e == std::string::npos) break; out.push_back(s.substr(pos, e - pos)); pos = e + 1; }
    }
    return out;
}

namespace {
struct Viol { std::string sig, replay, msg; };
struct StageRes { std::string name; uint64_t cases = 0; bool completed = true; double wall = 0; int crashes = 0; };

std::string crash_signature(const std::string& errtxt, int status, bool hang) {
    if (hang) return "hang";
    std::string kind;
    size_t a = errtxt.find("ERROR: AddressSanitizer: ");
    if (a != std::string::npos) { size_t b = a + 25; size_t e = errtxt.find_first_of(" \n", b); kind = "asan:" + errtxt.substr(b, e - b); }
    else if ((a = errtxt.find("runtime error: ")) != std::string::npos) { size_t e = errtxt.find('\n', a); kind = "ubsan:" + errtxt.substr(a + 15, std::min<size_t>(e - a - 15, 60)); for (auto& ch : kind) if (ch == ' ' || ch == '\t') ch = '_'; }
    else if (WIFSIGNALED(status)) { char b[32]; snprintf(b, sizeof b, "signal:%d", WTERMSIG(status)); kind = b; }
    else { char b[32]; snprintf(b, sizeof b, "exit:%d", WEXITSTATUS(status)); kind = b; }
    // first frame inside the library
    size_t pos = 0; std::string fn;
    while ((pos = errtxt.find(" in ", pos)) != std::string::npos) {
        size_t e = errtxt.find('\n', pos); std::string line = errtxt.substr(pos + 4, e - pos - 4);
        if (line.find("cJSON") != std::string::npos && line.find("/src/") == std::string::npos) { fn = line.substr(0, line.find(' ')); break; }
        pos = e == std::string::npos ? errtxt.size() : e;
    }
    return "crash:" + kind + (fn.empty() ? "" : "@" + fn);
}

void worker_body(Engine& e, const std::string& stage, int wid, long long resume_after) {
    g_wid = wid; g_nw = cfg.jobs; g_resume_after = resume_after; g_idx = 0; g_stop = false; g_viol_files = (int)slots[wid].nviol;
    char f[512]; snprintf(f, sizeof f, "%s/w%d.err", cfg.outdir.c_str(), wid);
    int fd = open(f, O_WRONLY | O_CREAT | O_TRUNC, 0644); if (fd >= 0) { dup2(fd, 2); close(fd); }
    e.worker_init();
    e.enumerate(stage);
    if (g_emit) fclose(g_emit);
    slots[wid].done = 1;
    fflush(stdout);
    _exit(0);
}
} // namespace

int engine_main(int argc, char** argv, Engine& e) {
    g_engine = &e;
    cfg.engine = e.name(); cfg.tier = "quick"; cfg.outdir = "build/out"; cfg.jobs = 16;
    const char* ej = getenv("VERIF_JOBS"); if (ej && atoi(ej) > 0) cfg.jobs = atoi(ej);
    const char* es = getenv("VERIF_SEED"); if (es) cfg.seed = atoi(es);
    bool deadline_given = false;
    for (int i = 1; i < argc; i++) {
        std::string a = argv[i]; auto nxt = [&]() { return i + 1 < argc ? std::string(argv[++i]) : std::string(); };
        if (a == "--prop") cfg.prop = nxt(); else if (a == "--tier") cfg.tier = nxt(); else if (a == "--jobs") cfg.jobs = atoi(nxt().c_str());
        else if (a == "--out") cfg.outdir = nxt(); else if (a == "--replay") cfg.replay = nxt();
        else if (a == "--deadline") { cfg.deadline_s = atof(nxt().c_str()); deadline_given = true; }
        else if (a == "--opt") { std::string kv = nxt(); size_t eq = kv.find('='); if (eq != std::string::npos) cfg.opt[kv.substr(0, eq)] = kv.substr(eq + 1); }
    }
    if (!deadline_given) { const char* d = getenv("VERIF_DEADLINE_S"); cfg.deadline_s = d ? atof(d) : (cfg.tier == "thorough" ? 1500 : 240); }
    cfg.start_time = now_s();
    if (cfg.jobs > 64) cfg.jobs = 64;
    setvbuf(stdout, nullptr, _IOLBF, 0);

    if (!cfg.replay.empty()) {
        static Case c; std::string stage;
        if (!read_replay(cfg.replay, c, stage)) { fprintf(stderr, "cannot read replay file %s\n", cfg.replay.c_str()); return 2; }
        g_replay = true; g_stage = stage; g_cur = &c;
        printf("replay %s: engine=%s property=%s stage=%s\ncase: %s\n", cfg.replay.c_str(), e.name(), cfg.prop.c_str(), stage.c_str(), e.describe(c).c_str());
        e.before_stage("replay:" + stage);
        e.worker_init();
        e.run_case(c, true);
        printf("replay result: %s\n", g_replay_viol ? "VIOLATES" : "holds");
        return g_replay_viol ? 1 : 0;
    }

    mkdir(cfg.outdir.c_str(), 0755); mkdir((cfg.outdir + "/replay").c_str(), 0755);
    slots = (Slot*)mmap(nullptr, sizeof(Slot) * cfg.jobs, PROT_READ | PROT_WRITE, MAP_SHARED | MAP_ANONYMOUS, -1, 0);
    for (int w = 0; w < cfg.jobs; w++) { char f[512]; snprintf(f, sizeof f, "%s/w%d.viol", cfg.outdir.c_str(), w); unlink(f); }
    std::vector<Viol> viols; std::vector<StageRes> sres; uint64_t total_viol = 0; int parent_replays = 0;
    bool all_completed = true; std::string largest_completed;
    Counters tot; memset(&tot, 0, sizeof tot);
    std::set<uint64_t> outcomes; std::vector<std::string> samples;

    std::vector<std::string> all_stages = e.stages();
    const double hang_s = (double)cfg.optl("hang_s", 30);   // engines may set a tighter default in stages()
    { auto it = cfg.opt.find("only"); if (it != cfg.opt.end()) { std::vector<std::string> f; for (auto& s : all_stages) if (s.find(it->second) == 0) f.push_back(s); all_stages = f; } }
    for (auto& stage : all_stages) {
        if (deadline_hit()) { all_completed = false; StageRes r; r.name = stage; r.completed = false; sres.push_back(r); continue; }
        g_stage = stage;
        for (int w = 0; w < cfg.jobs; w++) { char f[512]; snprintf(f, sizeof f, "%s/w%d.emit", cfg.outdir.c_str(), w); unlink(f); }
        e.before_stage(stage);
        double t0 = now_s();
        for (int w = 0; w < cfg.jobs; w++) { uint64_t nv = slots[w].nviol; memset((void*)&slots[w], 0, offsetof(Slot, cur) + offsetof(Case, data)); slots[w].nviol = nv; }
        std::vector<pid_t> pids(cfg.jobs, 0); std::vector<double> last_change(cfg.jobs, now_s()); std::vector<uint64_t> last_case(cfg.jobs, (uint64_t)-1);
        auto spawn = [&](int w, long long resume) {
            fflush(stdout);
            pid_t p = fork();
            if (p == 0) worker_body(e, stage, w, resume);
            pids[w] = p; last_change[w] = now_s(); last_case[w] = (uint64_t)-1;
        };
        for (int w = 0; w < cfg.jobs; w++) spawn(w, -1);
        int live = cfg.jobs; StageRes sr; sr.name = stage;
        while (live > 0) {
            int status = 0; pid_t p = waitpid(-1, &status, WNOHANG);
            if (p == 0) {
                usleep(20000);
                double t = now_s();
                for (int w = 0; w < cfg.jobs; w++) if (pids[w] > 0) {
                    uint64_t cn = slots[w].case_no;
                    if (cn != last_case[w] || !slots[w].running) { last_case[w] = cn; last_change[w] = t; }
                    else if (t - last_change[w] > hang_s) { kill(pids[w], SIGKILL); slots[w].running = 2; last_change[w] = t; }
                }
                continue;
            }
            if (p < 0) break;
            int w = -1; for (int k = 0; k < cfg.jobs; k++) if (pids[k] == p) w = k;
            if (w < 0) continue;
            pids[w] = 0;
            if (slots[w].done) { live--; continue; }
            // abnormal end while (presumably) inside a case
            bool hang = slots[w].running == 2;
            char f[512]; snprintf(f, sizeof f, "%s/w%d.err", cfg.outdir.c_str(), w);
            std::string err = slurp(f, 6000);
            std::string sig = crash_signature(err, status, hang);
            std::string msg = hang ? "no progress for " + std::to_string((int)hang_s) + " s inside one case (killed)" : "worker process died inside the case: " + sig;
            std::string one = err.substr(0, 1500); for (auto& ch : one) if (ch == '\n' || ch == '\t') ch = ' ';
            if (!one.empty()) msg += " | stderr: " + one;
            std::string path;
            if (!slots[w].running) { sig = "harness:worker-died-outside-case:" + sig; }
            if (parent_replays < 40) {
                char b[512]; snprintf(b, sizeof b, "%s/replay/%s-%s-crash-%d.txt", cfg.outdir.c_str(), cfg.prop.c_str(), stage.c_str(), parent_replays++);
                path = b; static Case cc; memcpy(&cc, (void*)&slots[w].cur, sizeof cc); write_replay(path, cc, sig, msg);
            }
            viols.push_back({sig, path, msg}); total_viol++; sr.crashes++;
            if (!slots[w].running || sr.crashes > 300) { live--; sr.completed = false; continue; }   // cannot resume safely / crash storm
            slots[w].running = 0;
            spawn(w, (long long)slots[w].case_no);
        }
        sr.wall = now_s() - t0;
        for (int w = 0; w < cfg.jobs; w++) {
            Slot& s = slots[w];
            sr.cases += s.c.cases; tot.cases += s.c.cases; tot.calls += s.c.calls; tot.nontrivial += s.c.nontrivial; tot.compared += s.c.compared;
            for (int k = 0; k < NCTR; k++) tot.extra[k] += s.c.extra[k];
            for (int k = 0; k < s.n_outcomes; k++) outcomes.insert(s.outcomes[k]);
            for (int k = 0; k < s.nsamples && samples.size() < 12; k++) samples.push_back(std::string("[") + stage + "] " + s.samples[k]);
            if (s.deadline) sr.completed = false;
        }
        e.after_stage(stage);
        if (sr.completed) largest_completed = stage; else all_completed = false;
        sres.push_back(sr);
        fprintf(stderr, "[%s %s] stage %-18s cases=%llu wall=%.1fs%s crashes=%d\n", cfg.prop.c_str(), e.name(), stage.c_str(), (unsigned long long)sr.cases, sr.wall, sr.completed ? "" : " INCOMPLETE", sr.crashes);
    }
    // gather worker-reported violations (a few examples per signature, all of them counted)
    std::map<std::string, int> per_sig; for (auto& v : viols) per_sig[v.sig]++;
    for (int w = 0; w < cfg.jobs; w++) {
        char f[512]; snprintf(f, sizeof f, "%s/w%d.viol", cfg.outdir.c_str(), w);
        std::string s = slurp(f, (size_t)1 << 26); size_t pos = 0;
        while (pos < s.size()) {
            size_t eol = s.find('\n', pos); if (eol == std::string::npos) break;
            std::string line = s.substr(pos, eol - pos); pos = eol + 1;
            size_t t1 = line.find('\t'), t2 = line.find('\t', t1 + 1); if (t1 == std::string::npos || t2 == std::string::npos) continue;
            total_viol++;
            { std::string sg = line.substr(0, t1); int& n = per_sig[sg]; n++; std::string rp = line.substr(t1 + 1, t2 - t1 - 1); if (n <= 5 || (n <= 40 && !rp.empty())) viols.push_back({sg, rp, line.substr(t2 + 1)}); }
        }
    }
    std::map<std::string, std::string> extra; e.finish(extra);
    std::string out = cfg.outdir + "/result.json";
    FILE* o = fopen(out.c_str(), "w");
    if (!o) { perror("result"); return 2; }
    fprintf(o, "{\n \"property\": %s, \"engine\": %s, \"tier\": %s, \"seed\": %d, \"jobs\": %d,\n", jstr(cfg.prop).c_str(), jstr(e.name()).c_str(), jstr(cfg.tier).c_str(), cfg.seed, cfg.jobs);
    fprintf(o, " \"cases\": %llu, \"calls\": %llu, \"nontrivial\": %llu, \"compared\": %llu, \"distinct_outcomes\": %zu,\n", (unsigned long long)tot.cases, (unsigned long long)tot.calls, (unsigned long long)tot.nontrivial, (unsigned long long)tot.compared, outcomes.size());
    fprintf(o, " \"counters\": {"); { auto names = e.counter_names(); for (size_t k = 0; k < names.size() && k < NCTR; k++) fprintf(o, "%s%s: %llu", k ? ", " : "", jstr(names[k]).c_str(), (unsigned long long)tot.extra[k]); } fprintf(o, "},\n");
    fprintf(o, " \"extra\": {"); { bool first = true; for (auto& kv : extra) { fprintf(o, "%s%s: %s", first ? "" : ", ", jstr(kv.first).c_str(), kv.second.c_str()); first = false; } } fprintf(o, "},\n");
    fprintf(o, " \"stages\": ["); for (size_t k = 0; k < sres.size(); k++) fprintf(o, "%s{\"name\": %s, \"cases\": %llu, \"completed\": %s, \"wall_s\": %.2f, \"crashes\": %d}", k ? ", " : "", jstr(sres[k].name).c_str(), (unsigned long long)sres[k].cases, sres[k].completed ? "true" : "false", sres[k].wall, sres[k].crashes); fprintf(o, "],\n");
    fprintf(o, " \"exhaustive\": %s, \"largest_completed_stage\": %s, \"deadline_s\": %.0f,\n", all_completed ? "true" : "false", jstr(largest_completed).c_str(), cfg.deadline_s);
    fprintf(o, " \"samples\": ["); for (size_t k = 0; k < samples.size(); k++) fprintf(o, "%s%s", k ? ", " : "", jstr(samples[k]).c_str()); fprintf(o, "],\n");
    fprintf(o, " \"signature_counts\": {"); { bool first = true; for (auto& kv : per_sig) { fprintf(o, "%s%s: %d", first ? "" : ", ", jstr(kv.first).c_str(), kv.second); first = false; } } fprintf(o, "},\n");
    fprintf(o, " \"n_violations\": %llu,\n \"violations\": [", (unsigned long long)total_viol);
    for (size_t k = 0; k < viols.size(); k++) fprintf(o, "%s\n  {\"sig\": %s, \"replay\": %s, \"msg\": %s}", k ? "," : "", jstr(viols[k].sig).c_str(), jstr(viols[k].replay).c_str(), jstr(viols[k].msg.substr(0, 1200)).c_str());
    fprintf(o, "],\n \"wall_s\": %.2f\n}\n", now_s() - cfg.start_time);
    fclose(o);
    return total_viol ? 1 : 0;
}

} // namespace vf
