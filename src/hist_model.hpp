// List/map model of cJSON trees for the history explorer (x_hist): model nodes mirror real nodes one to one.
#pragma once
#include "sup.hpp"
#include <memory>
#include <algorithm>
#include <ctype.h>

namespace vf {

struct MN {
    int kind = cJSON_NULL; bool ref = false, ckey = false, haskey = false;
    std::string key; const char* ckeyptr = nullptr;
    double num = 0; int vint = 0; std::string str; size_t cap = 0;   // cap: known size (without terminator) of the owned string buffer, 0 = unknown
    std::vector<MN*> kids; MN* parent = nullptr; cJSON* real = nullptr;
    MN* btarget = nullptr;    // reference node: the node it borrows from
    bool chainref = false;    // Create{Array,Object}Reference(x): borrows the sibling chain starting at btarget
    bool litref = false;      // CreateStringReference(literal)
};

struct World {
    std::vector<std::unique_ptr<MN>> arena;
    std::vector<MN*> roots;
    MN* mk() { arena.emplace_back(new MN()); return arena.back().get(); }
};

inline bool is_container(const MN* n) { return n->kind == cJSON_Array || n->kind == cJSON_Object; }
inline MN* root_of(MN* n) { while (n->parent) n = n->parent; return n; }
inline void preorder(MN* n, std::vector<MN*>& out) { out.push_back(n); for (MN* k : n->kids) preorder(k, out); }
inline std::vector<MN*> all_nodes(World& w) { std::vector<MN*> v; for (MN* r : w.roots) preorder(r, v); return v; }
inline size_t count_nodes(World& w) { return all_nodes(w).size(); }
inline int root_index(World& w, MN* r) { for (size_t i = 0; i < w.roots.size(); i++) if (w.roots[i] == r) return (int)i; return -1; }

// children as the library sees them (borrowed for reference nodes)
inline std::vector<MN*> view(const MN* n) {
    if (!n->ref) return n->kids;
    if (!n->btarget || !is_container(n)) return {};
    if (!n->chainref) return n->btarget->kids;
    MN* x = n->btarget; std::vector<MN*> v;
    if (!x->parent) { v.push_back(x); return v; }
    bool on = false; for (MN* s : x->parent->kids) { if (s == x) on = true; if (on) v.push_back(s); }
    return v;
}
inline std::string fold(const std::string& s) { std::string o = s; for (auto& c : o) c = (char)tolower((unsigned char)c); return o; }
inline MN* find_key(const std::vector<MN*>& kids, const std::string& k, bool cs) {
    for (MN* c : kids) if (c->haskey && (cs ? c->key == k : fold(c->key) == fold(k))) return c;
    return nullptr;
}
inline bool all_keyed(const std::vector<MN*>& kids) { for (MN* c : kids) if (!c->haskey) return false; return true; }
inline void collect_refs(MN* n, std::vector<MN*>& out) { if (n->ref && n->btarget) out.push_back(n); for (MN* k : n->kids) collect_refs(k, out); }
// root is "borrowed from" by a reference node (optionally: located in another root)
inline bool has_incoming_refs(World& w, MN* root, bool only_foreign) {
    for (MN* r : w.roots) { if (only_foreign && r == root) continue; std::vector<MN*> refs; collect_refs(r, refs); for (MN* x : refs) if (root_of(x->btarget) == root) return true; }
    return false;
}
inline bool frozen(World& w, MN* root) { return has_incoming_refs(w, root, false); }

// model-side deep copy with Duplicate semantics
inline MN* model_dup(World& w, const MN* s, bool recurse, bool top = true) {
    MN* d = w.mk(); d->kind = s->kind; d->ref = false; d->num = s->num; d->vint = s->vint; d->str = s->str;
    d->haskey = s->haskey; d->key = s->key; d->ckey = s->haskey && s->ckey; d->ckeyptr = d->ckey ? s->ckeyptr : nullptr;
    if (recurse) for (MN* k : view(s)) { MN* c = model_dup(w, k, true, false); c->parent = d; d->kids.push_back(c); }
    return d;
}

// canonical text of a model tree; refs are written with the base text + path of what they borrow
inline void canon_base(const MN* n, std::string& o) {
    char b[64];
    if (n->haskey) { o += 'k'; o += n->key; o += n->ckey ? "$=" : "="; }
    if (n->ref) o += n->litref ? "&L" : n->chainref ? "&C" : "&";
    switch (n->kind) {
        case cJSON_NULL: o += 'N'; break; case cJSON_False: o += 'F'; break; case cJSON_True: o += 'T'; break;
        case cJSON_Number: { uint64_t bits; memcpy(&bits, &n->num, 8); snprintf(b, sizeof b, "#%llx/%d", (unsigned long long)bits, n->vint); o += b; break; }
        case cJSON_String: o += "S\""; o += n->str; o += '"'; break;
        case cJSON_Raw: o += "R\""; o += n->str; o += '"'; break;
        case cJSON_Array: o += '['; for (MN* k : n->kids) { canon_base(k, o); o += ','; } o += ']'; break;
        case cJSON_Object: o += '{'; for (MN* k : n->kids) { canon_base(k, o); o += ','; } o += '}'; break;
        default: o += '?';
    }
}
inline std::string path_of(const MN* n) { std::string p; while (n->parent) { size_t i = 0; for (; i < n->parent->kids.size(); i++) if (n->parent->kids[i] == n) break; p = "/" + std::to_string(i) + p; n = n->parent; } return p; }
inline std::string canon_world(World& w) {
    std::vector<std::string> parts;
    for (MN* r : w.roots) {
        std::string s; canon_base(r, s);
        std::vector<MN*> refs; collect_refs(r, refs);
        for (MN* x : refs) { std::string tb; canon_base(root_of(x->btarget), tb); s += "|" + path_of(x) + "->" + tb + "@" + path_of(x->btarget); }
        parts.push_back(s);
    }
    std::sort(parts.begin(), parts.end());
    std::string o; for (auto& p : parts) { o += p; o += '\n'; }
    return o;
}
inline void hash128(const std::string& s, uint64_t& a, uint64_t& b) {
    a = 1469598103934665603ull; b = 0x9E3779B97F4A7C15ull;
    for (unsigned char c : s) { a = (a ^ c) * 1099511628211ull; b = (b + c) * 0xD6E8FEB86659FD93ull; b ^= b >> 29; }
}

// model tree from a reference value (parser results)
inline MN* model_from_rv(World& w, const RV& v) {
    MN* n = w.mk();
    switch (v.k) {
        case RV::Null: n->kind = cJSON_NULL; break; case RV::False: n->kind = cJSON_False; break;
        case RV::True: n->kind = cJSON_True; n->vint = 1; break;
        case RV::Num: n->kind = cJSON_Number; n->num = v.num; n->vint = saturate_int(v.num); break;
        case RV::Str: n->kind = cJSON_String; n->str = v.str; break; case RV::Raw: n->kind = cJSON_Raw; n->str = v.str; break;
        case RV::Arr: n->kind = cJSON_Array; for (auto& e : v.arr) { MN* c = model_from_rv(w, e); c->parent = n; n->kids.push_back(c); } break;
        case RV::Obj: n->kind = cJSON_Object; for (auto& e : v.obj) { MN* c = model_from_rv(w, e.second); c->parent = n; c->haskey = true; c->key = e.first; n->kids.push_back(c); } break;
    }
    return n;
}
// bind model nodes to the real nodes of a freshly created real tree with the same shape
inline bool bind_real(MN* m, cJSON* r) {
    m->real = r; cJSON* c = r->child;
    for (MN* k : m->kids) { if (!c) return false; if (!bind_real(k, c)) return false; c = c->next; }
    return c == nullptr;
}

// model vs real, node by node (identity, type, flags, key, value, order)
inline bool cmp_node(const MN* m, const cJSON* r, std::string& why, int depth = 0) {
    if (!r) { why = "real node missing"; return false; }
    if (r != m->real) { why = "different node at this position than the model predicts"; return false; }
    if ((r->type & 0xFF) != m->kind) { why = "node type " + std::to_string(r->type & 0xFF) + " != model " + std::to_string(m->kind); return false; }
    if (((r->type & cJSON_IsReference) != 0) != m->ref) { why = "reference flag differs from model"; return false; }
    if (m->haskey) {
        if (!r->string) { why = "key missing (model: \"" + m->key + "\")"; return false; }
        if (m->key != r->string) { why = std::string("key \"") + printable(r->string) + "\" != model \"" + m->key + "\""; return false; }
        if (((r->type & cJSON_StringIsConst) != 0) != m->ckey) { why = "constant-key flag differs from model"; return false; }
        if (m->ckey && r->string != m->ckeyptr) { why = "constant key pointer was replaced"; return false; }
    } else if (r->string) { why = std::string("unexpected key \"") + printable(r->string) + "\""; return false; }
    if (m->kind == cJSON_Number) { if (memcmp(&r->valuedouble, &m->num, 8) != 0 || r->valueint != m->vint) { why = "number value differs from model"; return false; } }
    if (m->kind == cJSON_String || m->kind == cJSON_Raw) { if (!r->valuestring || m->str != r->valuestring) { why = std::string("string value \"") + printable(r->valuestring ? r->valuestring : "(null)") + "\" != model \"" + printable(m->str) + "\""; return false; } }
    if (is_container(m) && depth < 64) {
        std::vector<MN*> v = view(m); const cJSON* c = r->child;
        for (size_t i = 0; i < v.size(); i++) { if (!c) { why = "container has " + std::to_string(i) + " items, model " + std::to_string(v.size()); return false; } if (!cmp_node(v[i], c, why, depth + 1)) { why = "item " + std::to_string(i) + ": " + why; return false; } c = c->next; }
        if (c) { why = "container has more items than the model (" + std::to_string(v.size()) + ")"; return false; }
    } else if (!is_container(m) && r->child) { why = "scalar has children"; return false; }
    return true;
}

} // namespace vf
