// x_hist: explicit-state breadth-first search over the real tree-editing API against the list/map model.
// C06 (model agreement + link invariants), C07 (allocation ledger at every state), C11 (Duplicate),
// C14 (allocator hooks, all hook configurations), C19 (sort + edits after sorting).
#include "sup.hpp"
#include "hist_model.hpp"
#include "trees.hpp"
#include <pthread.h>
#include <limits.h>
using namespace vf;

namespace {

enum OpCode { O_CREATE = 1, O_CREATE_CREF, O_BULK, O_PARSE, O_ADD_ARR, O_ADD_OBJ, O_ADD_REF_ARR, O_ADD_REF_OBJ, O_HELPER, O_INSERT,
              O_DETACH_PTR, O_DETACH_IDX, O_DETACH_KEY, O_REPLACE_PTR, O_REPLACE_IDX, O_REPLACE_KEY, O_SETNUM, O_SETSTR, O_SETBOOL,
              O_DUP, O_DELETE, O_SORT, O_UTIL, O_BUILD_OBJ, O_PARSE_BAD };
struct Op { int8_t code = 0, a = 0, b = 0, c = 0, d = 0; };
typedef std::vector<Op> Hist;

const char* const KEYS[] = { "a", "A", "b", "B", "_", "", "\xc3\xa9" };   // last: a key starting with a byte >= 0x80 (signed-char comparisons)
const int NKEYS = 7;   // '_' lies between 'Z' and 'a': exposes wrong case folding
const char* const PARSE_TEXTS[] = { "[1,2,3]", "{\"a\":1,\"A\":2,\"b\":3}", "[[1],{\"a\":[]}]", "{\"b\":1,\"a\":2}", "{\"a\":1,\"c\":2,\"b\":3}", "\"str\"", "[{\"a\":1,\"a\":2}]", "{\"k\":{\"b\":1,\"a\":2},\"B\":[]}" };
const int NPARSE = sizeof PARSE_TEXTS / sizeof *PARSE_TEXTS;
// malformed texts: every one must be rejected, and the rejection must release everything exactly once
const char* const BAD_TEXTS[] = { "{\"name\" 1}", "{\"a\":1,\"name\"}", "{\"name\"", "[\"\\uDE00\"]", "[\"x\\uD800y\"]", "[\"\\x41\"]", "[1,", "{\"a\":1,", "[1 2]", "{\"a\":[1,{\"b\":\"c\"},tru]}", "\"abc", "[[\"a\",\"b\"],{\"k\":\"v\"},nul]", "{\"k\":\"\\u12\"}", "{\"k\":\"v\",\"\\uD800\\u0041\":1}", "[\"ok\",\"bad\\q\"]", "{\"a\":{\"b\":{\"c\":[\"d\",}}}",
    // number-character runs longer than any fixed scratch buffer that contain no number / a number with a malformed tail
    "-eeeeeeeeeeeeeeeeeeeeeeeeeeeeeeeeeeeeeeeeeeeeeeeeeeeeeeeeeeeeeeeeeeeeeeeeeeeeeeeeee", "[1,--7777777777777777777777777777777777777777777777777777777777777777777777777777]",
    "{\"a\":[true,-.e+0000000000000000000000000000000000000000000000000000000000000000000000000000000]}", "[0.33333333333333333333333333333333333333333333333333333333333333333333333333333-+e.]" };
const int NBAD = sizeof BAD_TEXTS / sizeof *BAD_TEXTS;

std::string op_text(const Op& o) {
    static const char* nm[] = { "?", "Create", "CreateContainerReference", "BulkArray", "Parse", "AddItemToArray", "AddItemToObject", "AddItemReferenceToArray", "AddItemReferenceToObject", "AddXToObject", "InsertItemInArray",
                                "DetachItemViaPointer", "Detach/DeleteItemFromArray", "Detach/DeleteItemFromObject", "ReplaceItemViaPointer", "ReplaceItemInArray", "ReplaceItemInObject", "SetNumber", "SetValuestring", "SetBoolValue",
                                "Duplicate", "Delete", "SortObject", "UtilsCall", "BuildObject", "ParseMalformed" };
    char b[128]; snprintf(b, sizeof b, "%s(%d,%d,%d,%d)", o.code > 0 && o.code <= O_PARSE_BAD ? nm[o.code] : "?", o.a, o.b, o.c, o.d); return b;
}
std::string hist_bytes(const Hist& h) { std::string s; for (auto& o : h) { s += (char)o.code; s += (char)o.a; s += (char)o.b; s += (char)o.c; s += (char)o.d; } return s; }
Hist hist_from(const std::string& s) { Hist h; for (size_t i = 0; i + 4 < s.size() + 0 && i + 5 <= s.size(); i += 5) { Op o; o.code = s[i]; o.a = s[i + 1]; o.b = s[i + 2]; o.c = s[i + 3]; o.d = s[i + 4]; h.push_back(o); } return h; }
std::string hist_text(const Hist& h) { std::string s; for (auto& o : h) { if (!s.empty()) s += " ; "; s += op_text(o); } return s; }

struct Lits {   // borrowed memory handed to the library lives in read-only pages
    GuardMap gm; const char* key[7]; const char* lit_s; const char* lit_long; const char* lit_empty; const char* lit_r; const char* lit_ref;
    void init() {
        gm.create(4096);
        std::string blob; size_t off[13]; const char* items[] = { "a", "A", "b", "B", "_", "", "s", "longer string", "", "r", "borrowed literal", "\xc3\xa9" };
        for (int i = 0; i < 12; i++) { off[i] = blob.size(); blob += items[i]; blob.push_back('\0'); }
        const uint8_t* ro; gm.place_begin(blob.data(), blob.size(), &ro);
        for (int i = 0; i < 6; i++) key[i] = (const char*)ro + off[i];
        key[6] = (const char*)ro + off[11];
        lit_s = (const char*)ro + off[6]; lit_long = (const char*)ro + off[7]; lit_empty = (const char*)ro + off[8]; lit_r = (const char*)ro + off[9]; lit_ref = (const char*)ro + off[10];
    }
};

struct Exec {
    World w; Lits* lits; bool verbose = false; bool failed = false; std::string fail_sig, fail_msg;
    int max_nodes = 7, max_roots = 3;
    void fail(const std::string& sig, const std::string& msg) { if (!failed) { failed = true; fail_sig = sig; fail_msg = msg; } }

    MN* node(int id) { auto v = all_nodes(w); return id >= 0 && id < (int)v.size() ? v[id] : nullptr; }
    MN* root(int i) { return i >= 0 && i < (int)w.roots.size() ? w.roots[i] : nullptr; }
    void add_root(MN* m) { m->parent = nullptr; w.roots.push_back(m); }
    void drop_root(MN* m) { w.roots.erase(std::find(w.roots.begin(), w.roots.end(), m)); }
    void detach_model(MN* c) { MN* p = c->parent; p->kids.erase(std::find(p->kids.begin(), p->kids.end(), c)); c->parent = nullptr; }
    MN* new_leaf(int kind, cJSON* real) { MN* m = w.mk(); m->kind = kind; m->real = real; return m; }

    // returns false when the op could not be applied as described (harness error), sets failed on an oracle violation
    bool apply(const Op& o);
    void expect(bool cond, const char* sig, const std::string& msg) { if (!cond) fail(sig, msg); }
};

bool Exec::apply(const Op& o) {
    ctr().calls++;
    switch (o.code) {
    case O_CREATE: {
        cJSON* r = nullptr; MN* m = w.mk();
        switch (o.a) {
            case 0: r = LIB(cJSON_CreateNull()); m->kind = cJSON_NULL; break;
            case 1: r = LIB(cJSON_CreateTrue()); m->kind = cJSON_True; break;
            case 2: r = LIB(cJSON_CreateFalse()); m->kind = cJSON_False; break;
            case 3: r = LIB(cJSON_CreateBool(0)); m->kind = cJSON_False; break;
            case 4: r = LIB(cJSON_CreateBool(5)); m->kind = cJSON_True; break;
            case 5: r = LIB(cJSON_CreateNumber(1)); m->kind = cJSON_Number; m->num = 1; m->vint = 1; break;
            case 6: r = LIB(cJSON_CreateNumber(2.5)); m->kind = cJSON_Number; m->num = 2.5; m->vint = 2; break;
            case 7: r = LIB(cJSON_CreateString(lits->lit_s)); m->kind = cJSON_String; m->str = "s"; m->cap = 1; break;
            case 8: r = LIB(cJSON_CreateRaw(lits->lit_r)); m->kind = cJSON_Raw; m->str = "r"; break;
            case 9: r = LIB(cJSON_CreateArray()); m->kind = cJSON_Array; break;
            case 10: r = LIB(cJSON_CreateObject()); m->kind = cJSON_Object; break;
            case 11: r = LIB(cJSON_CreateStringReference(lits->lit_ref)); m->kind = cJSON_String; m->ref = true; m->litref = true; m->str = "borrowed literal"; break;
            case 12: r = LIB(cJSON_CreateNumber(1e10)); m->kind = cJSON_Number; m->num = 1e10; m->vint = INT_MAX; break;
            default: return false;
        }
        if (!r) { fail("model:create-failed", "Create* returned NULL"); return true; }
        m->real = r; add_root(m); return true;
    }
    case O_CREATE_CREF: {
        MN* x = node(o.b); if (!x) return false;
        cJSON* r = o.a ? LIB(cJSON_CreateObjectReference(x->real)) : LIB(cJSON_CreateArrayReference(x->real));
        if (!r) { fail("model:create-failed", "Create*Reference returned NULL"); return true; }
        MN* m = w.mk(); m->kind = o.a ? cJSON_Object : cJSON_Array; m->ref = true; m->chainref = true; m->btarget = x; m->real = r; add_root(m); return true;
    }
    case O_BULK: {
        static const int iv[] = { 1, -2, INT_MAX }; static const float fv[] = { 1.5f, -2.0f, 1e30f }; static const double dv[] = { 1.5, -2.0, 1e300 }; const char* sv[] = { lits->lit_s, lits->lit_empty, lits->lit_long };
        int n = o.b; cJSON* r = nullptr; bool nullp = o.c != 0;
        switch (o.a) {
            case 0: r = LIB(cJSON_CreateIntArray(nullp ? nullptr : iv, n)); break;
            case 1: r = LIB(cJSON_CreateFloatArray(nullp ? nullptr : fv, n)); break;
            case 2: r = LIB(cJSON_CreateDoubleArray(nullp ? nullptr : dv, n)); break;
            case 3: r = LIB(cJSON_CreateStringArray(nullp ? nullptr : sv, n)); break;
            default: return false;
        }
        if (n < 0 || nullp) { expect(r == nullptr, "model:bulk-should-fail", "bulk constructor accepted a negative count / NULL pointer"); if (r) LIBV(cJSON_Delete(r)); return true; }
        if (!r) { fail("model:create-failed", "bulk array constructor returned NULL"); return true; }
        MN* m = w.mk(); m->kind = cJSON_Array; m->real = r;
        for (int i = 0; i < n; i++) {
            MN* c = w.mk(); c->parent = m; m->kids.push_back(c);
            if (o.a == 3) { c->kind = cJSON_String; c->str = sv[i]; }
            else { c->kind = cJSON_Number; c->num = o.a == 0 ? (double)iv[i] : o.a == 1 ? (double)fv[i] : dv[i]; c->vint = saturate_int(c->num); }
        }
        if (!bind_real(m, r)) { fail("model:bulk-shape", "bulk array has the wrong number of elements"); }
        add_root(m); return true;
    }
    case O_PARSE: {
        if (o.a < 0 || o.a >= NPARSE) return false;
        cJSON* r = LIB(cJSON_Parse(PARSE_TEXTS[o.a])); RV v;
        if (!r || !S_parse((const uint8_t*)PARSE_TEXTS[o.a], strlen(PARSE_TEXTS[o.a]), v)) { fail("model:parse-failed", "cJSON_Parse returned NULL for a valid text"); return true; }
        MN* m = model_from_rv(w, v); if (!bind_real(m, r)) fail("model:parse-shape", "parsed tree has a different shape than the text");
        add_root(m); return true;
    }
    case O_PARSE_BAD: {
        if (o.a < 0 || o.a >= NBAD) return false; const char* t = BAD_TEXTS[o.a]; const char* end = nullptr;
        cJSON* r = o.b == 0 ? LIB(cJSON_Parse(t)) : o.b == 1 ? LIB(cJSON_ParseWithLength(t, strlen(t))) : LIB(cJSON_ParseWithOpts(t, &end, 1));
        if (r) { fail("model:malformed-text-parsed", std::string("malformed text parsed: ") + t); LIBV(cJSON_Delete(r)); }
        return true;
    }
    case O_BUILD_OBJ: {   // object with members keyed by the digits of o.a in base 6 (o.b members), values 0,1,2.. ; used for the sort start states
        cJSON* r = LIB(cJSON_CreateObject()); MN* m = w.mk(); m->kind = cJSON_Object; m->real = r; int code = (uint8_t)o.a | ((uint8_t)o.c << 8);
        for (int i = 0; i < o.b; i++) { int k = code % NKEYS; code /= NKEYS; cJSON* c = LIB(cJSON_CreateNumber(i)); LIBV(cJSON_AddItemToObject(r, KEYS[k], c)); MN* mc = w.mk(); mc->kind = cJSON_Number; mc->num = i; mc->vint = i; mc->haskey = true; mc->key = KEYS[k]; mc->parent = m; mc->real = c; m->kids.push_back(mc); }
        add_root(m); return true;
    }
    case O_ADD_ARR: {
        MN* p = node(o.a); if (!p) return false;
        if (o.b == -1) { expect(!LIB(cJSON_AddItemToArray(p->real, p->real)), "model:self-insert-accepted", "AddItemToArray(a, a) returned true"); return true; }
        if (o.b == -2) { expect(!LIB(cJSON_AddItemToArray(p->real, nullptr)), "model:null-accepted", "AddItemToArray(a, NULL) returned true"); return true; }
        MN* x = root(o.b); if (!x || x == root_of(p)) return false;
        cJSON_bool ok = LIB(cJSON_AddItemToArray(p->real, x->real));
        expect(ok, "model:add-refused", "AddItemToArray refused a detached item");
        drop_root(x); x->parent = p; p->kids.push_back(x); return true;
    }
    case O_ADD_OBJ: {
        MN* p = node(o.a); if (!p) return false;
        if (o.b == -1) { expect(!LIB(cJSON_AddItemToObject(p->real, lits->key[0], p->real)), "model:self-insert-accepted", "AddItemToObject(o, k, o) returned true"); return true; }
        MN* x = root(o.b); if (!x || x == root_of(p)) return false;
        const char* kp; std::string ks;
        if (o.c == 3) { if (!x->haskey || o.d) return false; kp = x->real->string; ks = x->key; } else { kp = lits->key[o.c]; ks = KEYS[o.c]; }
        cJSON_bool ok = o.d ? LIB(cJSON_AddItemToObjectCS(p->real, kp, x->real)) : LIB(cJSON_AddItemToObject(p->real, kp, x->real));
        expect(ok, "model:add-refused", "AddItemToObject refused a detached item");
        drop_root(x); x->parent = p; p->kids.push_back(x); x->haskey = true; x->key = ks; x->ckey = o.d != 0; x->ckeyptr = o.d ? kp : nullptr; return true;
    }
    case O_ADD_REF_ARR: case O_ADD_REF_OBJ: {
        MN* p = node(o.a); MN* t = node(o.b); if (!p || !t) return false;
        if (o.code == O_ADD_REF_OBJ && o.d == 1 && !t->haskey) return false;   // d == 1: the key argument is the referenced item's own name (aliases memory of the item)
        cJSON_bool ok = o.code == O_ADD_REF_ARR ? LIB(cJSON_AddItemReferenceToArray(p->real, t->real)) : LIB(cJSON_AddItemReferenceToObject(p->real, o.d == 1 ? t->real->string : lits->key[o.c], t->real));
        expect(ok, "model:add-reference-refused", "AddItemReferenceTo* returned false");
        if (!ok) return true;
        cJSON* last = p->real->child ? p->real->child->prev : nullptr;
        MN* r = w.mk(); r->kind = t->kind; r->ref = true; r->btarget = t->ref ? t->btarget : t; r->chainref = t->ref && t->chainref; r->litref = t->ref && t->litref; /* a reference to a reference node is a second, independent reference node to the same target */ r->num = t->num; r->vint = t->vint; r->str = t->str; r->real = last; r->parent = p;
        if (o.code == O_ADD_REF_OBJ) { r->haskey = true; r->key = o.d == 1 ? t->key : KEYS[o.c]; }
        p->kids.push_back(r); return true;
    }
    case O_HELPER: {
        MN* p = node(o.a); if (!p) return false; const char* k = lits->key[o.c]; cJSON* r = nullptr; MN* m = w.mk();
        switch (o.b) {
            case 0: r = LIB(cJSON_AddNullToObject(p->real, k)); m->kind = cJSON_NULL; break;
            case 1: r = LIB(cJSON_AddTrueToObject(p->real, k)); m->kind = cJSON_True; break;
            case 2: r = LIB(cJSON_AddFalseToObject(p->real, k)); m->kind = cJSON_False; break;
            case 3: r = LIB(cJSON_AddBoolToObject(p->real, k, 1)); m->kind = cJSON_True; break;
            case 4: r = LIB(cJSON_AddNumberToObject(p->real, k, -3.5)); m->kind = cJSON_Number; m->num = -3.5; m->vint = -3; break;
            case 5: r = LIB(cJSON_AddStringToObject(p->real, k, lits->lit_s)); m->kind = cJSON_String; m->str = "s"; break;
            case 6: r = LIB(cJSON_AddRawToObject(p->real, k, lits->lit_r)); m->kind = cJSON_Raw; m->str = "r"; break;
            case 7: r = LIB(cJSON_AddObjectToObject(p->real, k)); m->kind = cJSON_Object; break;
            case 8: r = LIB(cJSON_AddArrayToObject(p->real, k)); m->kind = cJSON_Array; break;
            default: return false;
        }
        if (!r) { fail("model:helper-failed", "Add*ToObject returned NULL"); return true; }
        m->real = r; m->haskey = true; m->key = KEYS[o.c]; m->parent = p; p->kids.push_back(m); return true;
    }
    case O_INSERT: {
        MN* p = node(o.a); if (!p) return false; int idx = o.b;
        if (o.c == -1) { cJSON_bool ok = LIB(cJSON_InsertItemInArray(p->real, idx, p->real)); expect(!ok, "model:self-insert-accepted", "InsertItemInArray(a, " + std::to_string(idx) + ", a) returned true (a container cannot be inserted into itself)"); return true; }
        MN* x = root(o.c); if (!x || x == root_of(p)) return false;
        cJSON_bool ok = LIB(cJSON_InsertItemInArray(p->real, idx, x->real)); int size = (int)p->kids.size();
        if (idx < 0) { expect(!ok, "model:insert-negative-accepted", "InsertItemInArray with negative index returned true"); return true; }
        if (idx > size) { if (!ok) return true; drop_root(x); x->parent = p; p->kids.push_back(x); return true; }   // beyond the end: append or refuse
        expect(ok, "model:insert-refused", "InsertItemInArray refused a valid index");
        if (!ok) return true;
        drop_root(x); x->parent = p; p->kids.insert(p->kids.begin() + idx, x); return true;
    }
    case O_DETACH_PTR: {
        MN* p = node(o.a); MN* c = node(o.b); if (!p || !c) return false;
        cJSON* r = LIB(cJSON_DetachItemViaPointer(p->real, c->real));
        if (c->parent != p) { expect(r == nullptr, "model:detach-nonmember", "DetachItemViaPointer returned an item that is not a member"); return true; }
        expect(r == c->real, "model:detach-wrong-item", "DetachItemViaPointer did not return the item");
        if (r != c->real) return true;
        detach_model(c); add_root(c); return true;
    }
    case O_DETACH_IDX: {
        MN* p = node(o.a); if (!p) return false; int idx = o.b; int size = (int)p->kids.size();
        MN* c = (idx >= 0 && idx < size) ? p->kids[idx] : nullptr;
        if (o.c) { LIBV(cJSON_DeleteItemFromArray(p->real, idx)); if (c) detach_model(c); return true; }
        cJSON* r = LIB(cJSON_DetachItemFromArray(p->real, idx));
        expect(r == (c ? c->real : nullptr), "model:detach-wrong-item", "DetachItemFromArray(" + std::to_string(idx) + ") returned " + (r ? "a different item" : "NULL") + " (size " + std::to_string(size) + ")");
        if (r != (c ? c->real : nullptr)) return true;
        if (c) { detach_model(c); add_root(c); } return true;
    }
    case O_DETACH_KEY: {
        MN* p = node(o.a); if (!p) return false; bool cs = o.c != 0; MN* c = find_key(p->kids, KEYS[o.b], cs); const char* k = lits->key[o.b];
        if (o.d) { if (cs) LIBV(cJSON_DeleteItemFromObjectCaseSensitive(p->real, k)); else LIBV(cJSON_DeleteItemFromObject(p->real, k)); if (c) detach_model(c); return true; }
        cJSON* r = cs ? LIB(cJSON_DetachItemFromObjectCaseSensitive(p->real, k)) : LIB(cJSON_DetachItemFromObject(p->real, k));
        expect(r == (c ? c->real : nullptr), "model:detach-wrong-item", std::string("DetachItemFromObject") + (cs ? "CaseSensitive" : "") + "(\"" + KEYS[o.b] + "\") returned " + (r ? "a different item than the first match" : "NULL although a member matches"));
        if (r != (c ? c->real : nullptr)) return true;
        if (c) { detach_model(c); add_root(c); } return true;
    }
    case O_REPLACE_PTR: case O_REPLACE_IDX: case O_REPLACE_KEY: {
        MN* p = node(o.a); if (!p) return false; MN* c = nullptr; MN* x = nullptr; cJSON_bool ok = 0;
        if (o.code == O_REPLACE_PTR) {
            c = node(o.b); if (!c || c->parent != p) return false;
            if (o.c == -1) { ok = LIB(cJSON_ReplaceItemViaPointer(p->real, c->real, c->real)); expect(ok, "model:replace-self-refused", "ReplaceItemViaPointer(p, c, c) returned false"); return true; }
            x = root(o.c); if (!x || x == root_of(p)) return false;
            ok = LIB(cJSON_ReplaceItemViaPointer(p->real, c->real, x->real));
            expect(ok, "model:replace-refused", "ReplaceItemViaPointer refused a member"); if (!ok) return true;
        } else if (o.code == O_REPLACE_IDX) {
            x = root(o.c); if (!x || x == root_of(p)) return false; int size = (int)p->kids.size();
            c = (o.b >= 0 && o.b < size) ? p->kids[o.b] : nullptr;
            ok = LIB(cJSON_ReplaceItemInArray(p->real, o.b, x->real));
            expect((ok != 0) == (c != nullptr), "model:replace-index", "ReplaceItemInArray(" + std::to_string(o.b) + ") returned " + std::to_string(ok) + " with size " + std::to_string(size)); if ((ok != 0) != (c != nullptr)) return true;
        } else {
            x = root(o.c); if (!x || x == root_of(p)) return false; bool cs = o.d != 0; const char* kp; std::string ks;
            if (o.b == 6) { if (!x->haskey || x->ckey) return false; kp = x->real->string; ks = x->key; }
            else if (o.b == 7) { if (p->kids.empty() || !p->kids[0]->haskey) return false; kp = p->kids[0]->real->string; ks = p->kids[0]->key; }   // key aliases the key of the member that gets replaced
            else { kp = lits->key[o.b]; ks = KEYS[o.b]; }
            c = find_key(p->kids, ks, cs);
            ok = cs ? LIB(cJSON_ReplaceItemInObjectCaseSensitive(p->real, kp, x->real)) : LIB(cJSON_ReplaceItemInObject(p->real, kp, x->real));
            expect((ok != 0) == (c != nullptr), "model:replace-key", std::string("ReplaceItemInObject(\"") + ks + "\") returned " + std::to_string(ok) + (c ? " although a member matches" : " although no member matches")); if ((ok != 0) != (c != nullptr)) return true;
            // the replacement's key is rewritten to the lookup key even when nothing matched (not constrained on refusal)
            if (ok) { x->haskey = true; x->key = ks; x->ckey = false; x->ckeyptr = nullptr; }
            else {
                // refused: the replacement stays caller-owned; its key is either untouched or has been re-written to an owned copy of the lookup key
                const char* now = x->real->string; bool konst = (x->real->type & cJSON_StringIsConst) != 0;
                bool untouched = (now != nullptr) == x->haskey && (!now || x->key == now) && konst == (x->haskey && x->ckey);
                if (!untouched) { if (now && ks == now && !konst) { x->haskey = true; x->key = ks; x->ckey = false; x->ckeyptr = nullptr; } else fail("model:replace-refused-item-damaged", "after a refused ReplaceItemInObject the replacement's key is neither its old key nor a copy of the lookup key"); }
            }
        }
        if (!c) return true;
        size_t pos = std::find(p->kids.begin(), p->kids.end(), c) - p->kids.begin();
        drop_root(x); x->parent = p; p->kids[pos] = x; c->parent = nullptr; return true;
    }
    case O_SETNUM: {
        MN* n = node(o.a); if (!n || n->kind != cJSON_Number) return false;
        if (o.b == 0) { double r = LIB(cJSON_SetNumberHelper(n->real, 3.5)); n->num = 3.5; n->vint = 3; expect(r == 3.5, "model:setnumber-return", "SetNumberHelper returned a different value"); }
        else if (o.b == 1) { LIBV(cJSON_SetNumberHelper(n->real, -1e10)); n->num = -1e10; n->vint = INT_MIN; }
        else { cJSON_SetIntValue(n->real, 7); n->num = 7; n->vint = 7; }
        return true;
    }
    case O_SETSTR: {
        MN* n = node(o.a); if (!n) return false; const char* s; std::string sv;
        switch (o.b) { case 0: s = lits->lit_empty; sv = ""; break; case 1: s = lits->lit_s; sv = "s"; break; case 2: s = lits->lit_long; sv = "longer string"; break;
                       case 3: if (n->kind != cJSON_String || !n->real->valuestring) return false; s = n->real->valuestring; sv = n->str; break;
                       case 4: if (n->kind != cJSON_String || n->ref || !n->real->valuestring || n->cap < n->str.size() + 2) return false; s = n->real->valuestring + n->str.size() + 1; sv = s; break;   // stale tail inside the node's own buffer
                       default: return false; }
        char* before = n->real->valuestring;
        char* r = LIB(cJSON_SetValuestring(n->real, s));
        bool settable = n->kind == cJSON_String && !n->ref;
        if (!settable) { expect(r == nullptr, "model:setvaluestring-nonstring", "SetValuestring succeeded on a node that is not an owned string"); return true; }
        if (o.b == 3) { expect(r == nullptr || r == before, "model:setvaluestring-overlap", "SetValuestring with the node's own string returned a foreign pointer"); return true; }
        expect(r != nullptr && r == n->real->valuestring, "model:setvaluestring-failed", "SetValuestring did not return the node's string");
        if (r) { bool grew = sv.size() > n->str.size(); n->str = sv; if (grew || n->cap == 0) n->cap = grew ? sv.size() : n->cap; } return true;
    }
    case O_SETBOOL: {
        MN* n = node(o.a); if (!n) return false;
        int r = cJSON_SetBoolValue(n->real, o.b);
        if (n->kind == cJSON_True || n->kind == cJSON_False) { n->kind = o.b ? cJSON_True : cJSON_False; expect((r & 0xFF) == n->kind, "model:setbool-return", "SetBoolValue returned the wrong type"); }
        else expect(r == cJSON_Invalid, "model:setbool-nonbool", "SetBoolValue on a non-boolean did not return cJSON_Invalid");
        return true;
    }
    case O_DUP: {
        MN* x = node(o.a); if (!x) return false;
        Walk before = walk(root_of(x)->real, W_ROOT_LINKS | W_NO_OWNED);
        int recurse_value = o.b == 2 ? 2 : o.b == 3 ? -1 : o.b;   // any non-zero value means recursive
        cJSON* r = LIB(cJSON_Duplicate(x->real, recurse_value));
        if (!r) { fail("dup:returned-null", "cJSON_Duplicate returned NULL for a small well-formed tree"); return true; }
        MN* d = model_dup(w, x, o.b != 0);
        // bind: walk the copy in the same order as the model copy
        struct B { static bool bind(MN* m, cJSON* r) { m->real = r; cJSON* c = r->child; for (MN* k : m->kids) { if (!c) return false; if (!bind(k, c)) return false; c = c->next; } return c == nullptr; } };
        if (!B::bind(d, r)) { fail("dup:shape", "duplicate has a different shape than the source"); LIBV(cJSON_Delete(r)); return true; }
        add_root(d);
        Walk after = walk(root_of(x)->real, W_ROOT_LINKS | W_NO_OWNED);
        expect(before.ok && after.ok && before.text == after.text, "dup:source-modified", "cJSON_Duplicate modified its source");
        return true;
    }
    case O_DELETE: { MN* x = root(o.a); if (!x) return false; LIBV(cJSON_Delete(x->real)); drop_root(x); return true; }
    case O_SORT: {
        MN* p = node(o.a); if (!p || !is_container(p)) return false;
        std::vector<const cJSON*> before; for (MN* k : p->kids) before.push_back(k->real);
        if (o.c == 1) ledger_arm_fault(1, false);   // c == 1: whatever the sort might want to allocate is refused (it may then leave the order alone, but not the links)
        if (o.b) LIBV(cJSONUtils_SortObjectCaseSensitive(p->real)); else LIBV(cJSONUtils_SortObject(p->real));
        bool refused = o.c == 1 && ledger_fault_fired(); if (o.c == 1) ledger_arm_fault(0, false);
        std::vector<cJSON*> now; size_t guard = 0; for (cJSON* c = p->real->child; c && guard < 64; c = c->next, guard++) now.push_back(c);
        std::vector<const cJSON*> a(before), b(now.begin(), now.end()); std::sort(a.begin(), a.end()); std::sort(b.begin(), b.end());
        if (a != b) { fail("sort:not-a-permutation", "after sorting the object holds a different set of member nodes (" + std::to_string(now.size()) + " reachable, " + std::to_string(before.size()) + " before)"); return true; }
        std::vector<MN*> nk; for (cJSON* c : now) for (MN* k : p->kids) if (k->real == c) nk.push_back(k);
        p->kids = nk;
        if (refused) return true;
        for (size_t i = 0; i + 1 < nk.size(); i++) {
            std::string x = o.b ? nk[i]->key : fold(nk[i]->key), y = o.b ? nk[i + 1]->key : fold(nk[i + 1]->key);
            if (x.compare(y) > 0) { fail("sort:not-sorted", "keys not in non-decreasing order after sort: \"" + nk[i]->key + "\" before \"" + nk[i + 1]->key + "\""); return true; }
        }
        // idempotent
        if (o.b) LIBV(cJSONUtils_SortObjectCaseSensitive(p->real)); else LIBV(cJSONUtils_SortObject(p->real));
        size_t i = 0; for (cJSON* c = p->real->child; c && i < now.size(); c = c->next, i++) if (c != now[i]) { fail("sort:not-idempotent", "sorting a sorted object changed the member order"); return true; }
        return true;
    }
    case O_UTIL: {
        MN* x = root(o.b); MN* y = root(o.c); if (!x) return false;
        cJSON* res = nullptr;
        switch (o.a) {
            case 0: if (!y) return false; res = LIB(cJSONUtils_GeneratePatchesCaseSensitive(x->real, y->real)); break;
            case 1: if (!y) return false; res = LIB(cJSONUtils_GeneratePatches(x->real, y->real)); break;
            case 2: if (!y) return false; res = LIB(cJSONUtils_GenerateMergePatchCaseSensitive(x->real, y->real)); break;
            case 3: if (!y) return false; res = LIB(cJSONUtils_GenerateMergePatch(x->real, y->real)); break;
            case 4: case 5: { cJSON* patch = LIB(cJSON_Parse("[{\"op\":\"test\",\"path\":\"\",\"value\":{\"b\":1,\"a\":2,\"c\":{\"z\":0,\"y\":0}}}]")); if (o.a == 4) LIBV(cJSONUtils_ApplyPatchesCaseSensitive(x->real, patch)); else LIBV(cJSONUtils_ApplyPatches(x->real, patch)); Walk pw = walk(patch); expect(pw.ok, "sort:patch-malformed-after-test", "patch document malformed after a test operation: " + pw.err); LIBV(cJSON_Delete(patch)); break; }
            case 7: case 8: if (!y) return false; ledger_arm_fault((uint64_t)(o.a - 6), false); res = LIB(cJSONUtils_GenerateMergePatchCaseSensitive(x->real, y->real)); ledger_arm_fault(0, false); break;   // generation that fails for lack of memory has sorted its inputs all the same
            case 6: { MN* t = node(o.c); if (!t) return false; char* ptr = LIB(cJSONUtils_FindPointerFromObjectTo(x->real, t->real)); if (ptr) LIBV(cJSON_free(ptr)); break; }
            default: return false;
        }
        if (res) LIBV(cJSON_Delete(res));
        // utilities may reorder object members (they sort internally): adopt the real order, it must be a permutation
        struct R { static bool sync(MN* m, std::string& why) {
            if (m->ref || !is_container(m)) return true;
            std::vector<MN*> nk; size_t g = 0;
            for (cJSON* c = m->real->child; c && g < 64; c = c->next, g++) { MN* f = nullptr; for (MN* k : m->kids) if (k->real == c) f = k; if (!f) { why = "unknown member node after utility call"; return false; } nk.push_back(f); }
            if (nk.size() != m->kids.size()) { why = "object lost or duplicated members during a utility call (" + std::to_string(nk.size()) + " reachable of " + std::to_string(m->kids.size()) + ")"; return false; }
            m->kids = nk; for (MN* k : m->kids) if (!sync(k, why)) return false; return true; } };
        std::string why; if (!R::sync(x, why) || (y && (o.a < 4 || o.a >= 7) && !R::sync(y, why))) fail("sort:members-changed-by-utility", why);
        return true;
    }
    }
    return false;
}

} // namespace
#include "x_hist_engine.inc"
