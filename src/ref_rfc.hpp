// Reference evaluators on RV: RFC 6901 (JSON Pointer), RFC 6902 (JSON Patch), RFC 7396 (JSON Merge Patch). Deliberately boring.
#pragma once
#include "sup.hpp"

namespace vf {

// split + decode; false if the text is not a syntactically valid JSON Pointer
inline bool ptr_tokens(const std::string& p, std::vector<std::string>& toks) {
    toks.clear();
    if (p.empty()) return true;
    if (p[0] != '/') return false;
    std::string cur; size_t i = 1;
    for (;; i++) {
        if (i == p.size() || p[i] == '/') { toks.push_back(cur); cur.clear(); if (i == p.size()) break; continue; }
        if (p[i] == '~') { if (i + 1 < p.size() && p[i + 1] == '0') { cur += '~'; i++; } else if (i + 1 < p.size() && p[i + 1] == '1') { cur += '/'; i++; } else return false; }
        else cur += p[i];
    }
    return true;
}
inline std::string ptr_encode_token(const std::string& t) { std::string o; for (char c : t) { if (c == '~') o += "~0"; else if (c == '/') o += "~1"; else o += c; } return o; }
inline bool array_index(const std::string& t, size_t size, size_t& idx, bool allow_end = false) {
    if (t.empty() || t.size() > 9) return false;
    for (char c : t) if (c < '0' || c > '9') return false;
    if (t.size() > 1 && t[0] == '0') return false;
    idx = (size_t)atol(t.c_str());
    return allow_end ? idx <= size : idx < size;
}
// resolve to a child-index path; false = designates nothing
inline bool ptr_resolve(const RV& doc, const std::vector<std::string>& toks, std::vector<size_t>& path) {
    path.clear(); const RV* cur = &doc;
    for (auto& t : toks) {
        if (cur->k == RV::Obj) { size_t i = 0; for (; i < cur->obj.size(); i++) if (cur->obj[i].first == t) break; if (i == cur->obj.size()) return false; path.push_back(i); cur = &cur->obj[i].second; }
        else if (cur->k == RV::Arr) { size_t i; if (!array_index(t, cur->arr.size(), i)) return false; path.push_back(i); cur = &cur->arr[i]; }
        else return false;
    }
    return true;
}
inline RV* rv_at(RV& doc, const std::vector<size_t>& path) { RV* c = &doc; for (size_t i : path) c = c->k == RV::Obj ? &c->obj[i].second : &c->arr[i]; return c; }
inline const cJSON* node_at(const cJSON* root, const std::vector<size_t>& path) { const cJSON* c = root; for (size_t i : path) { c = c->child; for (size_t k = 0; k < i && c; k++) c = c->next; if (!c) return nullptr; } return c; }

inline const RV* obj_get(const RV& o, const std::string& k) { if (o.k != RV::Obj) return nullptr; for (auto& kv : o.obj) if (kv.first == k) return &kv.second; return nullptr; }

// ---- RFC 6902
enum PatchVerdict { P_OK = 0, P_FAIL = 1, P_OPEN = 2 };   // OPEN: outside what the property fixes (invalid pointer syntax, removal of the whole document)
struct PatchEval {
    bool open = false;
    bool add(RV& doc, const std::vector<std::string>& toks, const RV& val) {
        if (toks.empty()) { RV tmp = val; doc = tmp; return true; }
        std::vector<std::string> ptoks(toks.begin(), toks.end() - 1); std::vector<size_t> pp;
        if (!ptr_resolve(doc, ptoks, pp)) return false;
        RV* parent = rv_at(doc, pp); const std::string& last = toks.back();
        if (parent->k == RV::Obj) { for (auto& kv : parent->obj) if (kv.first == last) { RV tmp = val; kv.second = tmp; return true; } RV tmp = val; parent->obj.emplace_back(last, tmp); return true; }
        if (parent->k == RV::Arr) { if (last == "-") { RV tmp = val; parent->arr.push_back(tmp); return true; } size_t i; if (!array_index(last, parent->arr.size(), i, true)) return false; RV tmp = val; parent->arr.insert(parent->arr.begin() + (long)i, tmp); return true; }
        return false;
    }
    bool remove(RV& doc, const std::vector<std::string>& toks, RV* out) {
        if (toks.empty()) { open = true; return false; }
        std::vector<size_t> p; if (!ptr_resolve(doc, toks, p)) return false;
        std::vector<size_t> pp(p.begin(), p.end() - 1); RV* parent = rv_at(doc, pp); size_t i = p.back();
        if (parent->k == RV::Obj) { if (out) *out = parent->obj[i].second; parent->obj.erase(parent->obj.begin() + (long)i); }
        else { if (out) *out = parent->arr[i]; parent->arr.erase(parent->arr.begin() + (long)i); }
        return true;
    }
    bool one(RV& doc, const RV& op) {
        if (op.k != RV::Obj) return false;
        const RV* o = obj_get(op, "op"); const RV* path = obj_get(op, "path");
        if (!o || o->k != RV::Str || !path || path->k != RV::Str) return false;
        std::vector<std::string> toks; if (!ptr_tokens(path->str, toks)) { open = true; return false; }
        const RV* value = obj_get(op, "value"); const RV* from = obj_get(op, "from");
        const std::string& name = o->str;
        if (name == "add") { if (!value) return false; return add(doc, toks, *value); }
        if (name == "remove") return remove(doc, toks, nullptr);
        if (name == "replace") { if (!value) return false; std::vector<size_t> p; if (!ptr_resolve(doc, toks, p)) return false; RV tmp = *value; *rv_at(doc, p) = tmp; return true; }
        if (name == "test") { if (!value) return false; std::vector<size_t> p; if (!ptr_resolve(doc, toks, p)) return false; return rv_equal_sets(*rv_at(doc, p), *value); }
        if (name == "move" || name == "copy") {
            if (!from || from->k != RV::Str) return false;
            std::vector<std::string> ft; if (!ptr_tokens(from->str, ft)) { open = true; return false; }
            std::vector<size_t> fp; if (!ptr_resolve(doc, ft, fp)) return false;
            if (name == "copy") { RV v = *rv_at(doc, fp); return add(doc, toks, v); }
            // a location cannot be moved into one of its own children
            if (ft.size() < toks.size() && std::equal(ft.begin(), ft.end(), toks.begin())) return false;
            if (ft == toks) return true;
            if (ft.empty()) { open = true; return false; }
            RV v; if (!remove(doc, ft, &v)) return false; return add(doc, toks, v);
        }
        return false;
    }
    PatchVerdict apply(RV& doc, const RV& patch) {
        if (patch.k != RV::Arr) return P_FAIL;
        for (auto& op : patch.arr) { if (!one(doc, op)) return open ? P_OPEN : P_FAIL; if (open) return P_OPEN; }
        return P_OK;
    }
};

// ---- RFC 7396
inline RV merge_apply(const RV& target, const RV& patch) {
    if (patch.k != RV::Obj) return patch;
    RV t = target.k == RV::Obj ? target : RV::mk(RV::Obj);
    for (auto& kv : patch.obj) {
        size_t i = 0; for (; i < t.obj.size(); i++) if (t.obj[i].first == kv.first) break;
        if (kv.second.k == RV::Null) { if (i < t.obj.size()) t.obj.erase(t.obj.begin() + (long)i); }
        else { RV sub = merge_apply(i < t.obj.size() ? t.obj[i].second : RV::mk(RV::Null), kv.second); if (i < t.obj.size()) t.obj[i].second = sub; else t.obj.emplace_back(kv.first, sub); }
    }
    return t;
}
// an object member whose value is null, at any object nesting level reachable through objects only (arrays are replaced wholesale by a merge patch)
inline bool has_null_member(const RV& v) { for (auto& kv : v.obj) if (kv.second.k == RV::Null || has_null_member(kv.second)) return true; return false; }

} // namespace vf
