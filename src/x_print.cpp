// x_print: exhaustive exploration of the print paths (C04 round trip, C05 strict output / variants agree,
// C09 caller-buffer bounds) over all trees up to a node bound, number / string / buffer-growth sweeps,
// every prebuffer size, every caller-buffer length and both allocator configurations.
#include "sup.hpp"
#include "trees.hpp"
#include <math.h>
#include <float.h>
#include <limits.h>
using namespace vf;

namespace {
enum Mode { M_ROUND, M_STRICT, M_PREALLOC };

bool num_close(double a, double b) {
    if (a == b) return true;
    if (!std::isfinite(a) || !std::isfinite(b)) return false;
    long double d = fabsl((long double)a - (long double)b), m = fmaxl(fabsl((long double)a), fabsl((long double)b));
    return d <= m * 0x1p-52L;
}
bool is_exact_int(double d) { return std::isfinite(d) && fabs(d) < 1e15 && d == floor(d); }

// tree == reference value with the property's number tolerance (C04) ; nonfinite_null: reference non-finite numbers appear as null (C05)
bool match_tol(const cJSON* n, const RV& v, std::string& why, bool nonfinite_null) {
    if (!n) { why = "NULL node"; return false; }
    int t = n->type & 0xFF;
    if (v.k == RV::Num && !std::isfinite(v.num) && nonfinite_null) { if (t != cJSON_NULL) { why = "non-finite number not printed as null"; return false; } return true; }
    static const int tmap[] = { cJSON_NULL, cJSON_False, cJSON_True, cJSON_Number, cJSON_String, cJSON_Raw, cJSON_Array, cJSON_Object };
    if (t != tmap[v.k]) { why = "type differs"; return false; }
    char b[160];
    switch (v.k) {
        case RV::Num:
            if (is_exact_int(v.num) ? n->valuedouble != v.num : !num_close(n->valuedouble, v.num)) { snprintf(b, sizeof b, "number %.17g came back as %.17g (%a vs %a)", v.num, n->valuedouble, v.num, n->valuedouble); why = b; return false; }
            return true;
        case RV::Str: case RV::Raw:
            if (!n->valuestring || v.str != n->valuestring) { why = "string bytes differ: \"" + printable(v.str) + "\" came back as \"" + printable(n->valuestring ? n->valuestring : "(null)") + "\""; return false; }
            return true;
        case RV::Arr: { const cJSON* c = n->child; for (size_t i = 0; i < v.arr.size(); i++, c = c->next) { if (!c) { why = "array shorter"; return false; } if (!match_tol(c, v.arr[i], why, nonfinite_null)) return false; } if (c) { why = "array longer"; return false; } return true; }
        case RV::Obj: { const cJSON* c = n->child; for (size_t i = 0; i < v.obj.size(); i++, c = c->next) { if (!c) { why = "object has fewer members"; return false; } if (!c->string || v.obj[i].first != c->string) { why = "key differs: \"" + printable(v.obj[i].first) + "\" came back as \"" + printable(c->string ? c->string : "(null)") + "\""; return false; } if (!match_tol(c, v.obj[i].second, why, nonfinite_null)) return false; } if (c) { why = "object has more members"; return false; } return true; }
        default: return true;
    }
}
bool rv_tol(const RV& a, const RV& v, std::string& why) {   // decoded value a vs reference v (non-finite -> null)
    if (v.k == RV::Num && !std::isfinite(v.num)) { if (a.k != RV::Null) { why = "non-finite number not printed as null"; return false; } return true; }
    if (a.k != v.k) { why = "type differs"; return false; }
    switch (v.k) {
        case RV::Num: if (is_exact_int(v.num) ? a.num != v.num : !num_close(a.num, v.num)) { char b[120]; snprintf(b, sizeof b, "number %.17g decodes as %.17g", v.num, a.num); why = b; return false; } return true;
        case RV::Str: if (a.str != v.str) { why = "string decodes differently"; return false; } return true;
        case RV::Arr: if (a.arr.size() != v.arr.size()) { why = "array length differs"; return false; } for (size_t i = 0; i < v.arr.size(); i++) if (!rv_tol(a.arr[i], v.arr[i], why)) return false; return true;
        case RV::Obj: if (a.obj.size() != v.obj.size()) { why = "member count differs"; return false; } for (size_t i = 0; i < v.obj.size(); i++) { if (a.obj[i].first != v.obj[i].first) { why = "key decodes differently"; return false; } if (!rv_tol(a.obj[i].second, v.obj[i].second, why)) return false; } return true;
        default: return true;
    }
}
std::string strip_ws_outside_strings(const std::string& s) {
    std::string o; bool in = false, esc = false;
    for (char c : s) {
        if (in) { o += c; if (esc) esc = false; else if (c == '\\') esc = true; else if (c == '"') in = false; }
        else if (c == '"') { in = true; o += c; }
        else if (c == ' ' || c == '\t' || c == '\n' || c == '\r') continue;
        else o += c;
    }
    return o;
}
bool all_strings_utf8(const RV& v) {
    if (v.k == RV::Str) return valid_utf8(v.str);
    for (auto& e : v.arr) if (!all_strings_utf8(e)) return false;
    for (auto& e : v.obj) if (!valid_utf8(e.first) || !all_strings_utf8(e.second)) return false;
    return true;
}
bool has_nonfinite(const RV& v) {
    if (v.k == RV::Num) return !std::isfinite(v.num);
    for (auto& e : v.arr) if (has_nonfinite(e)) return true;
    for (auto& e : v.obj) if (has_nonfinite(e.second)) return true;
    return false;
}
bool has_raw(const RV& v) { if (v.k == RV::Raw) return true; for (auto& e : v.arr) if (has_raw(e)) return true; for (auto& e : v.obj) if (has_raw(e.second)) return true; return false; }
double from_bits(uint64_t b) { double d; memcpy(&d, &b, 8); return d; }

bool all_numbers(const RV& v) { if (v.k != RV::Arr) return false; for (auto& e : v.arr) if (e.k != RV::Num) return false; return true; }

static RV expand_raw(const RV& v) { RV o = v; if (v.k == RV::Raw) { RV p; if (S_parse((const uint8_t*)v.str.data(), v.str.size(), p)) return p; return o; } for (auto& e : o.arr) e = expand_raw(e); for (auto& e : o.obj) e.second = expand_raw(e.second); return o; }
static bool has_object(const RV& v) { if (v.k == RV::Obj) return !v.obj.empty(); for (auto& e : v.arr) if (has_object(e)) return true; return false; }
static bool has_array(const RV& v) { if (v.k == RV::Arr) return !v.arr.empty(); if (v.k == RV::Obj) for (auto& e : v.obj) if (has_array(e.second)) return true; return false; }
struct XPrint : Engine {
    Mode mode = M_ROUND; GuardMap gm; bool verbose = false; std::string curdesc;
    const char* name() override { return "x_print"; }
    std::vector<std::string> counter_names() override { return { "print_calls", "parse_backs", "prebuffer_sizes", "prealloc_lengths", "custom_hook_prints", "strict_decodes", "trees_with_growth" }; }
    void init() { mode = cfg.prop == "C05" ? M_STRICT : cfg.prop == "C09" ? M_PREALLOC : M_ROUND; }
    void worker_init() override { init(); gm.create(1 << 20); }
    std::vector<std::string> stages() override {
        init();
        std::vector<std::string> st; int n = (int)cfg.optl("tree_nodes", cfg.thorough() ? 6 : 5);
        for (int k = 1; k <= n; k++) st.push_back("trees" + std::to_string(k));
        st.push_back("strings"); st.push_back("lengths"); st.push_back("numbers"); st.push_back("growth");
        if (mode != M_ROUND) st.push_back("special");
        if (cfg.thorough()) st.push_back("numbers_dense");
        return st;
    }
    void emit(const RV& v) { static Case c; c.kind = 0; std::string s = rv_ser(v); if (s.size() > sizeof c.data) return; c.set(s); pool_run(c); }

    static std::vector<double> number_list(bool dense, bool thorough) {
        std::vector<double> v;
        if (!dense) {
            static const uint64_t mant[] = { 0, 1, 0xFFFFFFFFFFFFFull, 0xAAAAAAAAAAAAAull, 0x8000000000000ull, 0x7FFFFFFFFFFFFull, 0x5555555555555ull, 0x123456789ABCDull, 0xFFFFFFFFFFFFEull, 0x8000000000001ull };
            int step = thorough ? 1 : 8;
            for (int e = 0; e <= 2046; e += (e < 64 || e > 1980 || (e > 1000 && e < 1100)) ? 1 : step) for (uint64_t m : mant) for (int sg = 0; sg < 2; sg++) { if (e == 0 && m == 0 && sg == 0) { v.push_back(0.0); continue; } v.push_back(from_bits(((uint64_t)sg << 63) | ((uint64_t)e << 52) | m)); }
            for (const char* m : { "1", "15", "123456789012345", "9007199254740993", "3.3", "0.1", "2.2250738585072011", "1.7976931348623157", "4.9406564584124654", "7" }) for (int e = -330; e <= 310; e += thorough ? 1 : 3) { char b[64]; snprintf(b, sizeof b, "%se%d", m, e); double d = strtod(b, nullptr); if (std::isfinite(d)) { v.push_back(d); v.push_back(-d); } }
            for (int k = 0; k <= 17; k++) for (int d = -1; d <= 1; d++) { double x = pow(10.0, k) + d; v.push_back(x); v.push_back(-x); }
            for (double d : { (double)INT_MAX, (double)INT_MAX + 1, (double)INT_MAX - 1, (double)INT_MIN, (double)INT_MIN - 1, (double)INT_MIN + 1, (double)INT_MAX + 0.5, (double)INT_MIN - 0.5, DBL_MAX, -DBL_MAX, DBL_MIN, -DBL_MIN, 5e-324, -5e-324, -0.0, 0.5, 1.5, 1e15, 1e15 - 1, 1e15 + 2, 999999999999999.0, 0.1 + 0.2, 1.0 / 3, 2.0 / 3, 123456789.123456789, 1e21, 1e22, 1e23, 9007199254740991.0, 9007199254740992.0, 9007199254740994.0, 3.87 / 7, 0.012345678901234568, 1e-5, 1e-7, 0.000123, 4294967295.0, 4294967296.0 }) v.push_back(d);
        } else {
            int per = thorough ? 4096 : 256;
            std::vector<int> exps; for (int e = 0; e <= 60; e++) exps.push_back(e); for (int e = 2040; e <= 2046; e++) exps.push_back(e); for (int e : { 969, 970, 971, 1023, 1022, 1075, 1076 }) exps.push_back(e);
            for (int e : exps) for (int k = 0; k < per; k++) { uint64_t m = (uint64_t)k * ((1ull << 52) / per) + (uint64_t)(k * 2654435761u % 977); v.push_back(from_bits(((uint64_t)e << 52) | (m & 0xFFFFFFFFFFFFFull))); }
        }
        return v;
    }

    void enumerate(const std::string& stage) override {
        init();
        if (stage.compare(0, 5, "trees") == 0) {
            int k = atoi(stage.c_str() + 5);
            TreeAlphabet al; al.leaves = { RV::mk(RV::Null), RV::mk(RV::True), RV::mk(RV::False), RV::number(1), RV::string("s") }; al.keys = { "a", "b" }; al.max_arity = 3; al.max_depth = 4; al.dup_keys = true;
            if (mode == M_PREALLOC) al.leaves.push_back(RV::number(-1.5));
            detail::TreeGen g(al);
            for (auto& t : g.exact(k, al.max_depth)) { if (!pool_take()) continue; emit(t); }
        } else if (stage == "strings") {
            static const unsigned char A[] = { '"', '\\', '/', '\b', 0x01, 0x1f, 0x20, 0x7f, 'a', 0xc3, 0xa9, 0xff };
            std::vector<std::string> strs; strs.push_back("");
            for (int b = 1; b < 256; b++) strs.push_back(std::string(1, (char)b));
            int maxl = cfg.thorough() ? 4 : 3;
            for (int l = 2; l <= maxl; l++) { std::vector<int> od(l, 0); for (;;) { std::string s; for (int i = 0; i < l; i++) s += (char)A[od[i]]; strs.push_back(s); int i = l - 1; while (i >= 0 && ++od[i] == (int)sizeof A) od[i--] = 0; if (i < 0) break; } }
            for (const char* s : { "\xe2\x82\xac", "\xf0\x9f\x98\x80", "\xed\xa0\x80", "\xc0\x80", "\xf4\x90\x80\x80", "a\tb\nc\rd\fe\bf", "\"\"\"\"", "\\\\\\\\", "\\\"", "</script>", "\x7f\x7f\x7f", "\x01\x02\x03\x04\x05\x06\x07\x0b\x0e\x0f\x10" }) strs.push_back(s);
            for (auto& s : strs) for (int ctx = 0; ctx < 3; ctx++) {
                if (!pool_take()) continue;
                RV v; if (ctx == 0) v = RV::string(s); else if (ctx == 1) { v = RV::mk(RV::Obj); v.obj.emplace_back(s, RV::number(0)); } else { v = RV::mk(RV::Arr); v.arr.push_back(RV::string(s)); v.arr.push_back(RV::string(s)); }
                emit(v);
            }
        } else if (stage == "lengths") {
            // string values and member names of every length 0..300 and around 512 / 1024 / 4096: plain, with a character that needs escaping first / last / every 16th, all escapes
            std::vector<int> lad; for (int i = 0; i <= 300; i++) lad.push_back(i); for (int i : { 511, 512, 513, 1023, 1024, 1025 }) lad.push_back(i); if (mode != M_PREALLOC) for (int i : { 4095, 4096, 4097 }) lad.push_back(i);
            for (int L : lad) for (int pat = 0; pat < 7; pat++) for (int ctx = 0; ctx < 3; ctx++) {
                if (!pool_take()) continue; if (L == 0 && pat) continue;
                std::string sv((size_t)L, 'p');
                if (pat == 1) sv[0] = '"'; else if (pat == 2) sv[(size_t)L - 1] = '\\'; else if (pat == 3) { for (int i = 15; i < L; i += 16) sv[(size_t)i] = '\n'; } else if (pat == 4) { for (auto& ch : sv) ch = '\x01'; } else if (pat == 6) { static const char cyc[] = { '\x01', '\n', 'A', '"', '\x1f', '\\', 'b', '\t' }; for (int i = 0; i < L; i++) sv[(size_t)i] = cyc[i % 8]; } else if (pat == 5) { for (int i = 0; i < L; i++) sv[(size_t)i] = (i % 2) ? (char)0xA9 : (char)0xC3; if (L % 2) sv[(size_t)L - 1] = 'e'; }
                RV v; if (ctx == 0) v = RV::string(sv); else if (ctx == 1) { v = RV::mk(RV::Obj); v.obj.emplace_back(sv, RV::string(sv)); v.obj.emplace_back("z", RV::number(1)); } else { v = RV::mk(RV::Arr); v.arr.push_back(RV::number(-1.5)); v.arr.push_back(RV::string(sv)); v.arr.push_back(RV::mk(RV::Obj)); }
                emit(v);
            }
        } else if (stage == "numbers" || stage == "numbers_dense") {
            bool dense = stage == "numbers_dense";
            std::vector<double> nums = number_list(dense, cfg.thorough());
            for (double d : nums) for (int ctx = 0; ctx < (dense ? 1 : 3); ctx++) {
                if (!pool_take()) continue;
                RV v; if (ctx == 0) v = RV::number(d); else if (ctx == 1) { v = RV::mk(RV::Arr); v.arr.push_back(RV::number(d)); v.arr.push_back(RV::number(d)); } else { v = RV::mk(RV::Obj); v.obj.emplace_back("n", RV::number(d)); }
                emit(v);
            }
        } else if (stage == "growth") {
            // every token kind placed across the 256-byte default buffer boundary at every offset
            std::vector<RV> toks = { RV::mk(RV::Null), RV::mk(RV::True), RV::mk(RV::False), RV::number(7), RV::number(-1234567), RV::number(1.0 / 3), RV::number(-2.5e-300), RV::string("plain"), RV::string("e\"s\\c\x01"), RV::mk(RV::Arr), RV::mk(RV::Obj) };
            { RV a = RV::mk(RV::Arr); a.arr = { RV::number(1), RV::number(2), RV::number(3) }; toks.push_back(a); }
            { RV o = RV::mk(RV::Obj); o.obj.emplace_back("k", RV::number(1)); o.obj.emplace_back("e\"k", RV::mk(RV::Null)); toks.push_back(o); }
            { RV o = RV::mk(RV::Obj); RV i = RV::mk(RV::Obj); RV j = RV::mk(RV::Obj); j.obj.emplace_back("z", RV::mk(RV::Arr)); i.obj.emplace_back("y", j); o.obj.emplace_back("x", i); toks.push_back(o); }
            for (int L = 222; L <= 262; L++) for (size_t ti = 0; ti < toks.size(); ti++) for (int shape = 0; shape < 3; shape++) {
                if (!pool_take()) continue;
                std::string pad((size_t)L, 'p'); RV v;
                if (shape == 0) { v = RV::mk(RV::Arr); v.arr.push_back(RV::string(pad)); v.arr.push_back(toks[ti]); v.arr.push_back(RV::number(0)); }
                else if (shape == 1) { v = RV::mk(RV::Obj); v.obj.emplace_back("p", RV::string(pad)); v.obj.emplace_back("t", toks[ti]); }
                else { v = RV::mk(RV::Obj); v.obj.emplace_back(pad, toks[ti]); v.obj.emplace_back("q", toks[(ti + 1) % toks.size()]); }
                emit(v);
            }
            for (int L : { 254, 255, 256, 257, 300, 511, 512, 513, 600, 1023, 1500, 4000 }) for (int shape = 0; shape < 3; shape++) {
                if (!pool_take()) continue;
                std::string big((size_t)L, 'x'); if (shape == 2) for (size_t i = 0; i < big.size(); i += 7) big[i] = '"';
                RV v; if (shape == 0) v = RV::string(big); else { v = RV::mk(RV::Obj); v.obj.emplace_back("k", RV::string(big)); v.obj.emplace_back(big.substr(0, (size_t)L / 2), RV::mk(RV::True)); }
                emit(v);
            }
            // wide shapes: many sibling containers (the text must parse back: nesting depth is 2, not the sibling count)
            for (int shape = 0; shape < 4; shape++) { if (!pool_take()) continue; RV v = RV::mk(shape == 3 ? RV::Obj : RV::Arr); int n = CJSON_NESTING_LIMIT + 50;
                for (int i = 0; i < n; i++) { RV e = shape == 0 ? RV::mk(RV::Arr) : shape == 1 ? RV::mk(RV::Obj) : RV::mk(RV::Arr); if (shape == 2) e.arr.push_back(RV::mk(RV::Obj)); if (shape == 3) v.obj.emplace_back("k", e); else v.arr.push_back(e); }
                emit(v); }
            // deep nesting: indentation grows with depth
            for (int d : { 5, 20, 60, 130, CJSON_NESTING_LIMIT - 1, CJSON_NESTING_LIMIT }) for (int shape = 0; shape < 2; shape++) { if (!pool_take()) continue; RV v = RV::number(1); for (int i = 0; i < d; i++) { RV w = RV::mk(shape ? RV::Obj : RV::Arr); if (shape) w.obj.emplace_back("k", v); else w.arr.push_back(v); v = w; } emit(v); }
        } else if (stage == "special") {
            std::vector<RV> sp;
            for (double d : { (double)INFINITY, -(double)INFINITY, (double)NAN }) { sp.push_back(RV::number(d)); RV a = RV::mk(RV::Arr); a.arr = { RV::number(1), RV::number(d), RV::string("x") }; sp.push_back(a); RV o = RV::mk(RV::Obj); o.obj.emplace_back("v", RV::number(d)); sp.push_back(o); }
            // raw items: arbitrary text for the caller-buffer property, JSON text for the strict-output property (the output must then be JSON as a whole)
            if (mode == M_STRICT) for (const char* r : { "[1,2]", "{\"a\":null}", "true", "123456789012345678901234567890", "\"raw string\"", "[[[[{}]]]]" }) { RV raw = RV::mk(RV::Raw); raw.str = r; sp.push_back(raw); RV a = RV::mk(RV::Arr); a.arr = { raw, RV::number(1), raw }; sp.push_back(a); RV o = RV::mk(RV::Obj); o.obj.emplace_back("r", raw); o.obj.emplace_back("s", RV::string("t")); sp.push_back(o); RV n = RV::mk(RV::Arr); n.arr = { o, a }; sp.push_back(n); }
            if (mode == M_PREALLOC) { for (int n = 0; n <= 20; n++) { RV raw = RV::mk(RV::Raw); raw.str = ""; RV a = RV::mk(RV::Arr); for (int i = 0; i < n; i++) a.arr.push_back(raw); sp.push_back(a); RV b = RV::mk(RV::Arr); b.arr.push_back(RV::number(1)); b.arr.push_back(a); sp.push_back(b); RV o = RV::mk(RV::Obj); for (int i = 0; i < n; i++) o.obj.emplace_back("", raw); sp.push_back(o); } }
            if (mode == M_PREALLOC) for (const char* r : { "x", "[1,2]", "{\"a\":null}", "", "123456789012345678901234567890" }) { RV raw = RV::mk(RV::Raw); raw.str = r; sp.push_back(raw); RV a = RV::mk(RV::Arr); a.arr = { raw, RV::number(1) }; sp.push_back(a); RV o = RV::mk(RV::Obj); o.obj.emplace_back("r", raw); o.obj.emplace_back("s", RV::string("t")); sp.push_back(o); }
            for (auto& v : sp) { if (!pool_take()) continue; emit(v); }
            for (int k = 0; k < 6; k++) { if (!pool_take()) continue; static Case c; c.kind = 1; c.iv[1] = k; c.len = 0; pool_run(c); }
        }
        if (stage == "growth") {
            // several KiB of small tokens followed by one very large token (growth policy of large buffers)
            for (int pre : { 0, 300, 1300, 2000, 4090, 5000, 9000 }) for (int bigl : { 3000, 7000, 20000, 70000 }) for (int shape = 0; shape < 2; shape++) { if (!pool_take()) continue; static Case c; c.kind = 2; c.iv[1] = pre; c.iv[2] = bigl; c.iv[3] = shape; c.len = 0; pool_run(c); }
        }
    }

    void V(const char* check, const std::string& msg) { static const char* mn[] = { "roundtrip", "strict", "prealloc" }; violation(std::string(mn[mode]) + ":" + check, msg + " | tree=" + curdesc); }
    bool take_failed = false;
    std::string take(char* p) { if (!p) { take_failed = true; return std::string(); } std::string s(p); LIBV(cJSON_free(p)); return s; }

    void prebuffer_sweep(cJSON* t, const std::string base[2], const char* tag) {
        for (int fmt = 0; fmt < 2; fmt++) {
            size_t Ln = base[fmt].size(); std::vector<int> ps;
            if (Ln <= 200) { for (int p = 0; p <= (int)Ln + 2; p++) ps.push_back(p); ps.push_back((int)Ln * 2); ps.push_back(1000); }
            else { for (int p : { 0, 1, 2, 5, 255, 256, 257 }) ps.push_back(p); for (int d = -3; d <= 2; d++) ps.push_back((int)Ln + d); ps.push_back((int)Ln / 2); ps.push_back((int)Ln * 2); }
            for (int p : ps) {
                char* r = LIB(cJSON_PrintBuffered(t, p, fmt)); ctr().calls++; ctr().extra[0]++; ctr().extra[2]++;
                if (!r) { V("printbuffered-failed", std::string(tag) + ": cJSON_PrintBuffered(prebuffer=" + std::to_string(p) + ", fmt=" + std::to_string(fmt) + ") returned NULL"); continue; }
                if (base[fmt] != r) V("variants-differ", std::string(tag) + ": cJSON_PrintBuffered(prebuffer=" + std::to_string(p) + ", fmt=" + std::to_string(fmt) + ") = \"" + printable(std::string(r).substr(0, 200)) + "\" differs from cJSON_Print*: \"" + printable(base[fmt].substr(0, 200)) + "\"");
                LIBV(cJSON_free(r));
            }
            if (p_neg_checked++ == 0) { char* r = LIB(cJSON_PrintBuffered(t, -1, fmt)); if (r) { V("negative-prebuffer-accepted", "cJSON_PrintBuffered(-1) returned text"); LIBV(cJSON_free(r)); } }
        }
    }
    int p_neg_checked = 0;

    void prealloc_sweep(cJSON* t, const std::string base[2]) {
            ctr().nontrivial++;
            for (int fi = 0; fi < 4; fi++) { const int fmt = fi == 2 ? 4 : fi == 3 ? -1 : fi;   // any non-zero format flag means formatted
                const std::string& B = base[fmt ? 1 : 0]; size_t Ln = B.size(); bool prev_ok = false; int first_ok = -1;
                std::vector<size_t> ns; if (Ln <= 400) for (size_t n = 0; n <= Ln + 16; n++) ns.push_back(n); else { for (size_t n = 0; n <= 40; n++) ns.push_back(n); for (size_t n = 230; n <= 290; n++) ns.push_back(n); for (size_t n = Ln - 30; n <= Ln + 16; n++) ns.push_back(n); }
                for (size_t n : ns) {
                    uint8_t* buf = gm.rw + gm.size - n;
                    uint8_t* can = buf - 64; memset(can, 0xC5, 64); if (n) memset(buf, (n & 1) ? 0xAA : 0x5A, n);
                    cJSON_bool ok = LIB(cJSON_PrintPreallocated(t, (char*)buf, (int)n, fmt)); ctr().calls++; ctr().extra[3]++; ctr().compared++;
                    for (int i = 0; i < 64; i++) if (can[i] != 0xC5) { V("write-before-buffer", "byte before the caller buffer modified (n=" + std::to_string(n) + ")"); break; }
                    if (ok) {
                        if (n < Ln + 1) V("true-with-short-buffer", "returned true for n=" + std::to_string(n) + " but the text needs " + std::to_string(Ln + 1) + " bytes");
                        else if (memcmp(buf, B.c_str(), Ln + 1) != 0) V("true-but-wrong-text", "returned true for n=" + std::to_string(n) + " fmt=" + std::to_string(fmt) + " but buffer holds \"" + printable(std::string((const char*)buf, strnlen((const char*)buf, n)).substr(0, 200)) + "\" instead of \"" + printable(B.substr(0, 200)) + "\"");
                        if (first_ok < 0) first_ok = (int)n;
                    } else {
                        if (n >= Ln + 1 + 5) V("false-with-large-buffer", "returned false for n=" + std::to_string(n) + " although the text (" + std::to_string(Ln) + " bytes) + terminator + 5 fits, fmt=" + std::to_string(fmt));
                        if (prev_ok && n > 0 && ns.size() > 1) V("not-monotone", "succeeded for a smaller buffer but failed for n=" + std::to_string(n));
                    }
                    prev_ok = ok != 0;
                }
                note_outcome(0x1000 | (uint64_t)(first_ok - (int)Ln));
            }
            uint8_t* buf = gm.rw + gm.size - 64;
            if (LIB(cJSON_PrintPreallocated(t, (char*)buf, -1, 0))) V("negative-length-accepted", "length -1 accepted");
            if (LIB(cJSON_PrintPreallocated(t, nullptr, 64, 0))) V("null-buffer-accepted", "NULL buffer accepted");
            if (LIB(cJSON_PrintPreallocated(nullptr, (char*)buf, 64, 0))) V("null-item-accepted", "NULL item printed");
            ctr().calls += 3;
            }

    // trees that cannot be described by a reference value: string items without text, object members without a name (both print as "")
    cJSON* null_tree(int k) {
        cJSON* nul = LIB(cJSON_CreateStringReference(nullptr));
        switch (k) {
            case 0: return nul;
            case 1: { cJSON* a = LIB(cJSON_CreateArray()); LIBV(cJSON_AddItemToArray(a, LIB(cJSON_CreateNumber(1)))); LIBV(cJSON_AddItemToArray(a, nul)); return a; }
            case 2: { cJSON* a = LIB(cJSON_CreateArray()); LIBV(cJSON_AddItemToArray(a, nul)); LIBV(cJSON_AddItemToArray(a, LIB(cJSON_CreateString("after")))); return a; }
            case 3: { cJSON* o = LIB(cJSON_CreateObject()); LIBV(cJSON_AddItemToObject(o, "k", nul)); LIBV(cJSON_AddItemToObject(o, "l", LIB(cJSON_CreateTrue()))); return o; }
            case 4: { LIBV(cJSON_Delete(nul)); cJSON* o = LIB(cJSON_CreateObject()); LIBV(cJSON_AddItemToArray(o, LIB(cJSON_CreateNumber(5)))); LIBV(cJSON_AddItemToObject(o, "named", LIB(cJSON_CreateNumber(6)))); return o; }
            default: { LIBV(cJSON_Delete(nul)); cJSON* o = LIB(cJSON_CreateObject()); cJSON* in = LIB(cJSON_CreateObject()); LIBV(cJSON_AddItemToArray(in, LIB(cJSON_CreateNull()))); LIBV(cJSON_AddItemToObject(o, "x", in)); return o; }
        }
    }
    void run_null_tree(int k) {
        long live0 = ledger_live(); cJSON* t = null_tree(k); curdesc = "special tree #" + std::to_string(k) + " (string without text / member without name)";
        take_failed = false; std::string base[2] = { take(LIB(cJSON_PrintUnformatted(t))), take(LIB(cJSON_Print(t))) };
        if (take_failed) V("print-failed", "cJSON_Print* returned NULL"); else { ctr().nontrivial++; if (mode == M_PREALLOC) prealloc_sweep(t, base); else prebuffer_sweep(t, base, "default allocator"); }
        if (!take_failed && mode == M_STRICT) {   // a string without text prints as "", a member without name under the name "": the output is JSON all the same
            for (int fmt = 0; fmt < 2; fmt++) { RV dec; if (!S_parse((const uint8_t*)base[fmt].data(), base[fmt].size(), dec)) V("output-not-strict-json", std::string(fmt ? "cJSON_Print" : "cJSON_PrintUnformatted") + " output is not RFC 8259 JSON: \"" + printable(base[fmt].substr(0, 300)) + "\""); }
            if (strip_ws_outside_strings(base[1]) != base[0]) V("formats-differ-beyond-whitespace", "formatted output minus whitespace != unformatted output");
        }
        LIBV(cJSON_Delete(t)); if (ledger_live() != live0) V("leak", "allocation balance after the case is " + std::to_string(ledger_live() - live0));
    }
    void run_case(const Case& c, bool vb) override {
        init(); verbose = vb;
        if (c.kind == 1) { run_null_tree((int)c.iv[1]); return; }
        RV rv;
        if (c.kind == 2) { rv = RV::mk(c.iv[3] ? RV::Obj : RV::Arr); int n = (int)c.iv[1] / 10; for (int i = 0; i < n; i++) { if (c.iv[3]) rv.obj.emplace_back("k" + std::to_string(i), RV::number(i * 3 + 0.5)); else rv.arr.push_back(RV::number(1000000 + i)); } std::string big((size_t)c.iv[2], 'B'); big[big.size() / 2] = '"'; if (c.iv[3]) rv.obj.emplace_back("big", RV::string(big)); else rv.arr.push_back(RV::string(big)); if (c.iv[3]) rv.obj.emplace_back("after", RV::mk(RV::True)); else rv.arr.push_back(RV::mk(RV::Null)); }
        else
        if (!rv_deser(c.str(), rv)) { violation("harness:bad-case", "cannot decode case"); return; }
        curdesc = printable(rv_text(rv).substr(0, 300));
        long live0 = ledger_live(); uint64_t err0 = L.errors;
        install_hooks(HK_DEFAULT);
        cJSON* t = build_tree(rv);
        Walk w0 = walk(t);
        take_failed = false;
        std::string base[2] = { take(LIB(cJSON_PrintUnformatted(t))), take(LIB(cJSON_Print(t))) }; ctr().calls += 2; ctr().extra[0] += 2;
        bool printable_tree = true;
        if (take_failed) { V("print-failed", "cJSON_Print/cJSON_PrintUnformatted returned NULL"); printable_tree = false; }
        if (verbose) printf("  PrintUnformatted -> %s\n  Print -> %s\n", printable(base[0]).c_str(), printable(base[1]).c_str());
        if (base[0].size() > 256) ctr().extra[6]++;
        note_outcome((uint64_t)rv.k | (uint64_t)(base[0].size() > 255) << 4 | (uint64_t)has_nonfinite(rv) << 5 | (uint64_t)mode << 6);
        if (printable_tree && mode != M_PREALLOC) {
            ctr().nontrivial++;
            bool finite = !has_nonfinite(rv), raw = has_raw(rv);
            // other construction routes must print identically
            {
                cJSON* tc = build_tree_cs(rv); std::string a = take(LIB(cJSON_PrintUnformatted(tc))), b = take(LIB(cJSON_Print(tc))); ctr().calls += 2;
                if (a != base[0] || b != base[1]) V("construction-route-differs", "tree built with constant keys prints differently");
                LIBV(cJSON_Delete(tc));
                if (has_array(rv)) { cJSON* tn = build_tree_named(rv); std::string a2 = take(LIB(cJSON_PrintUnformatted(tn))), b2 = take(LIB(cJSON_Print(tn))); ctr().calls += 2;
                    if (a2 != base[0] || b2 != base[1]) V("construction-route-differs", "tree whose array elements carry stale member names prints differently"); LIBV(cJSON_Delete(tn)); }
                if (all_numbers(rv) && rv.arr.size() <= 64) {
                    std::vector<double> ds; ds.reserve(rv.arr.size() + 1); for (auto& e : rv.arr) ds.push_back(e.num);
                    cJSON* tb = LIB(cJSON_CreateDoubleArray(ds.data(), (int)ds.size())); std::string x = take(LIB(cJSON_PrintUnformatted(tb)));
                    if (x != base[0]) V("construction-route-differs", "cJSON_CreateDoubleArray tree prints differently"); LIBV(cJSON_Delete(tb));
                }
            }
            for (int fmt = 0; fmt < 2 && !raw; fmt++) {
                const std::string& T = base[fmt];
                if (mode == M_ROUND && finite) {
                    cJSON* t2 = LIB(cJSON_Parse(T.c_str())); ctr().calls++; ctr().extra[1]++; ctr().compared++;
                    if (!t2) { V("printed-text-does-not-parse", std::string(fmt ? "cJSON_Print" : "cJSON_PrintUnformatted") + " output is rejected by cJSON_Parse: \"" + printable(T.substr(0, 300)) + "\""); continue; }
                    std::string why; if (!match_tol(t2, rv, why, false)) V("roundtrip-value-differs", std::string(fmt ? "formatted" : "unformatted") + " text \"" + printable(T.substr(0, 200)) + "\" parses back differently: " + why);
                    Walk w2 = walk(t2); if (!w2.ok) V("reparsed-tree-malformed", w2.err);
                    std::string T2 = take(fmt ? LIB(cJSON_Print(t2)) : LIB(cJSON_PrintUnformatted(t2))); ctr().calls++;
                    if (T2 != T) V("not-a-fixed-point", "printing the re-parsed tree gives \"" + printable(T2.substr(0, 200)) + "\" instead of \"" + printable(T.substr(0, 200)) + "\"");
                    // tree that came from the parser prints like the constructed one in the other format as well
                    std::string T3 = take(fmt ? LIB(cJSON_PrintUnformatted(t2)) : LIB(cJSON_Print(t2)));
                    cJSON* t3 = LIB(cJSON_Parse(T3.c_str())); if (!t3) V("printed-text-does-not-parse", "second generation text rejected"); else { std::string why2; if (!match_tol(t3, rv, why2, false)) V("roundtrip-value-differs", "second generation: " + why2); LIBV(cJSON_Delete(t3)); }
                    LIBV(cJSON_Delete(t2));
                }
                if (mode == M_STRICT && all_strings_utf8(rv)) {
                    RV dec; ctr().extra[5]++; ctr().compared++; RV rvx = raw ? expand_raw(rv) : rv; const RV& rv = rvx;
                    if (!S_parse((const uint8_t*)T.data(), T.size(), dec)) V("output-not-strict-json", std::string(fmt ? "cJSON_Print" : "cJSON_PrintUnformatted") + " output is not RFC 8259 JSON: \"" + printable(T.substr(0, 300)) + "\"");
                    else { std::string why; if (!rv_tol(dec, rv, why)) V("output-decodes-differently", "independent decoder reads \"" + printable(T.substr(0, 200)) + "\" as a different value: " + why); }
                }
            }
            if (mode == M_STRICT) {
                if (strip_ws_outside_strings(base[1]) != base[0]) V("formats-differ-beyond-whitespace", "formatted output minus whitespace \"" + printable(strip_ws_outside_strings(base[1]).substr(0, 200)) + "\" != unformatted \"" + printable(base[0].substr(0, 200)) + "\"");
                if (rv.k == RV::Num && std::isfinite(rv.num) && rv.num == (double)(int)rv.num && rv.num >= INT_MIN && rv.num <= INT_MAX) {
                    const std::string& s = base[0]; bool ok = !s.empty(); size_t i = 0; if (ok && s[0] == '-') i = 1; if (i >= s.size()) ok = false; for (; ok && i < s.size(); i++) if (s[i] < '0' || s[i] > '9') ok = false;
                    if (!ok) V("integer-not-plain-decimal", "integer-valued number printed as \"" + s + "\"");
                }
            }
            // every prebuffer size, preallocated, default allocator (realloc available)
            prebuffer_sweep(t, base, "default allocator");
            for (int fmt = 0; fmt < 2; fmt++) {
                size_t n = base[fmt].size() + 64; uint8_t* buf = gm.rw + gm.size - n; memset(buf, 0xAA, n);
                cJSON_bool ok = LIB(cJSON_PrintPreallocated(t, (char*)buf, (int)n, fmt)); ctr().calls++;
                if (!ok) V("preallocated-failed", "cJSON_PrintPreallocated with 64 spare bytes failed");
                else if (base[fmt] != (const char*)buf) V("variants-differ", "cJSON_PrintPreallocated text differs from cJSON_Print*");
            }
            // any non-zero format flag means formatted output
            for (int fv : { 2, -1, 256 }) {
                char* r = LIB(cJSON_PrintBuffered(t, (int)base[1].size() / 2, fv)); ctr().calls++;
                if (!r) V("printbuffered-failed", "cJSON_PrintBuffered with format flag " + std::to_string(fv) + " returned NULL");
                else { if (base[1] != r) V("variants-differ", "cJSON_PrintBuffered with non-zero format flag " + std::to_string(fv) + " gives \"" + printable(std::string(r).substr(0, 200)) + "\" instead of the formatted text \"" + printable(base[1].substr(0, 200)) + "\""); LIBV(cJSON_free(r)); }
                size_t n = base[1].size() + 64; uint8_t* buf = gm.rw + gm.size - n; memset(buf, 0xAA, n);
                if (!LIB(cJSON_PrintPreallocated(t, (char*)buf, (int)n, fv)) || base[1] != (const char*)buf) V("variants-differ", "cJSON_PrintPreallocated with non-zero format flag " + std::to_string(fv) + " does not give the formatted text");
            }
            // custom hooks: no realloc available
            install_hooks(HK_CUSTOM);
            {
                cJSON* th = build_tree(rv);
                std::string hb[2] = { take(LIB(cJSON_PrintUnformatted(th))), take(LIB(cJSON_Print(th))) }; ctr().calls += 2; ctr().extra[4] += 2;
                if (hb[0] != base[0] || hb[1] != base[1]) V("allocator-dependent-output", "output without realloc \"" + printable(hb[0].substr(0, 200)) + "\" differs from output with realloc \"" + printable(base[0].substr(0, 200)) + "\"");
                prebuffer_sweep(th, base, "custom hooks (no realloc)");
                LIBV(cJSON_Delete(th));
            }
            install_hooks(HK_DEFAULT);
        }
        if (printable_tree && mode == M_PREALLOC) { prealloc_sweep(t, base); if (has_object(rv)) { cJSON* tc = build_tree_cs(rv); prealloc_sweep(tc, base); LIBV(cJSON_Delete(tc)); } }   // also the same tree with constant member names
        Walk w1 = walk(t);
        if (w0.ok && (!w1.ok || w1.text != w0.text)) V("tree-modified-by-print", "printing changed the tree");
        LIBV(cJSON_Delete(t));
        if (ledger_live() != live0) V("leak", "allocation balance after the case is " + std::to_string(ledger_live() - live0));
        if (L.errors != err0) V("allocator-misuse", L.first_error);
    }
    std::string describe(const Case& c) override { if (c.kind == 2) return "tree with about " + std::to_string(c.iv[1]) + " bytes of small tokens followed by a " + std::to_string(c.iv[2]) + "-byte string"; if (c.kind == 1) return "special tree #" + std::to_string(c.iv[1]) + " (string without text / member without name)"; RV rv; if (!rv_deser(c.str(), rv)) return "?"; return printable(rv_text(rv).substr(0, 160)); }
    void finish(std::map<std::string, std::string>& x) override {
        x["rule"] = jstr("one case = one reference tree, built through the construction API, constant-key API, bulk constructors and the parser; evaluations = trees, transitions = library calls, "
                         "non-trivial = trees that printed; every print entry point x every prebuffer/caller-buffer size x both allocator configurations is executed per tree; stages: all trees up to the node bound, all strings up to 3 (thorough 4) bytes over a 12-byte alphabet, strings / member names of every length 0..300 and around 512 / 1024 / 4096 in 7 escape patterns, numbers, buffer-growth boundaries, special trees (non-finite, raw, unnamed members, 0..20 empty raw items)");
    }
};
} // namespace

int main(int argc, char** argv) { XPrint e; return engine_main(argc, argv, e); }
