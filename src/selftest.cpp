// Validation of the harness' reference models against external material (not a registered check):
//   selftest patch <repo>   : RFC 6902 evaluator on the repository's json-patch-tests and RFC examples; RFC 6901 table; RFC 7396 table
//   selftest sdump          : strict decoder verdict + canonical value for an enumeration of inputs (compared with Python's json by tools/selftest.py)
#include "sup.hpp"
#include "ref_rfc.hpp"
using namespace vf;

static std::string slurp(const std::string& p) { std::string s; FILE* f = fopen(p.c_str(), "rb"); if (!f) return s; char b[4096]; size_t r; while ((r = fread(b, 1, sizeof b, f)) > 0) s.append(b, r); fclose(f); return s; }
static void canon(const RV& v, std::string& o) {
    char b[40];
    switch (v.k) {
        case RV::Null: o += "n"; break; case RV::True: o += "t"; break; case RV::False: o += "f"; break;
        case RV::Num: snprintf(b, sizeof b, "#%.17g", v.num); o += b; break;
        case RV::Str: o += "s" + hex(v.str.data(), v.str.size()); break; case RV::Raw: o += "r"; break;
        case RV::Arr: o += "["; for (auto& e : v.arr) { canon(e, o); o += ","; } o += "]"; break;
        case RV::Obj: o += "{"; for (auto& e : v.obj) { o += hex(e.first.data(), e.first.size()); o += ":"; canon(e.second, o); o += ","; } o += "}"; break;
    }
}
static int fails = 0, total = 0;
static void expect(bool c, const std::string& what) { total++; if (!c) { fails++; printf("SELFTEST-FAIL %s\n", what.c_str()); } }
static RV J(const char* t) { RV v; if (!S_parse((const uint8_t*)t, strlen(t), v)) { printf("SELFTEST-FAIL cannot parse %s\n", t); fails++; } return v; }

static void patch_file(const std::string& path) {
    std::string s = slurp(path); RV tests; if (s.empty() || !S_parse((const uint8_t*)s.data(), s.size(), tests)) { printf("SELFTEST-FAIL cannot read %s\n", path.c_str()); fails++; return; }
    int n = 0;
    for (auto& t : tests.arr) {
        const RV* doc = obj_get(t, "doc"); const RV* patch = obj_get(t, "patch"); const RV* exp = obj_get(t, "expected"); const RV* err = obj_get(t, "error"); const RV* dis = obj_get(t, "disabled"); const RV* cm = obj_get(t, "comment");
        if (!doc || !patch || dis) continue; n++;
        RV d = *doc; PatchEval pe; PatchVerdict pv = pe.apply(d, *patch); std::string name = path + ": " + (cm ? cm->str : rv_text(*patch).substr(0, 80));
        if (err) expect(pv != P_OK, name + " should fail (" + err->str + ")");
        else if (exp) expect(pv == P_OK && rv_equal_sets(d, *exp), name + " expected " + rv_text(*exp) + " got " + (pv == P_OK ? rv_text(d) : "failure"));
        else expect(pv == P_OK, name + " should succeed");
    }
    printf("%s: %d cases\n", path.c_str(), n);
}

int main(int argc, char** argv) {
    std::string mode = argc > 1 ? argv[1] : "patch";
    if (mode == "patch") {
        std::string repo = argc > 2 ? argv[2] : "/repo";
        patch_file(repo + "/tests/json-patch-tests/spec_tests.json"); patch_file(repo + "/tests/json-patch-tests/tests.json"); patch_file(repo + "/tests/json-patch-tests/cjson-utils-tests.json");
        // RFC 6901 section 5
        RV doc = J("{\"foo\":[\"bar\",\"baz\"],\"\":0,\"a/b\":1,\"c%d\":2,\"e^f\":3,\"g|h\":4,\"i\\\\j\":5,\"k\\\"l\":6,\" \":7,\"m~n\":8}");
        struct { const char* p; const char* v; } tab[] = { { "/foo", "[\"bar\",\"baz\"]" }, { "/foo/0", "\"bar\"" }, { "/", "0" }, { "/a~1b", "1" }, { "/c%d", "2" }, { "/e^f", "3" }, { "/g|h", "4" }, { "/i\\j", "5" }, { "/k\"l", "6" }, { "/ ", "7" }, { "/m~0n", "8" } };
        { std::vector<std::string> t; std::vector<size_t> p; expect(ptr_tokens("", t) && ptr_resolve(doc, t, p) && p.empty(), "RFC 6901: \"\" is the whole document"); }
        for (auto& e : tab) { std::vector<std::string> t; std::vector<size_t> p; bool ok = ptr_tokens(e.p, t) && ptr_resolve(doc, t, p); expect(ok && rv_equal_sets(*rv_at(doc, p), J(e.v)), std::string("RFC 6901: ") + e.p); }
        for (const char* bad : { "foo", "/foo/2", "/foo/-", "/foo/01", "/foo/1e0", "/nope", "/m~n", "/a~2b", "/foo/0/x", "/foo/+1", "/foo/ 1" }) { std::vector<std::string> t; std::vector<size_t> p; expect(!(ptr_tokens(bad, t) && ptr_resolve(doc, t, p)), std::string("RFC 6901: must not resolve: ") + bad); }
        // RFC 7396 appendix A
        struct { const char* o; const char* p; const char* r; } mt[] = { { "{\"a\":\"b\"}", "{\"a\":\"c\"}", "{\"a\":\"c\"}" }, { "{\"a\":\"b\"}", "{\"b\":\"c\"}", "{\"a\":\"b\",\"b\":\"c\"}" }, { "{\"a\":\"b\"}", "{\"a\":null}", "{}" }, { "{\"a\":\"b\",\"b\":\"c\"}", "{\"a\":null}", "{\"b\":\"c\"}" },
            { "{\"a\":[\"b\"]}", "{\"a\":\"c\"}", "{\"a\":\"c\"}" }, { "{\"a\":\"c\"}", "{\"a\":[\"b\"]}", "{\"a\":[\"b\"]}" }, { "{\"a\":{\"b\":\"c\"}}", "{\"a\":{\"b\":\"d\",\"c\":null}}", "{\"a\":{\"b\":\"d\"}}" }, { "{\"a\":[{\"b\":\"c\"}]}", "{\"a\":[1]}", "{\"a\":[1]}" },
            { "[\"a\",\"b\"]", "[\"c\",\"d\"]", "[\"c\",\"d\"]" }, { "{\"a\":\"b\"}", "[\"c\"]", "[\"c\"]" }, { "{\"a\":\"foo\"}", "null", "null" }, { "{\"a\":\"foo\"}", "\"bar\"", "\"bar\"" }, { "{\"e\":null}", "{\"a\":1}", "{\"e\":null,\"a\":1}" },
            { "[1,2]", "{\"a\":\"b\",\"c\":null}", "{\"a\":\"b\"}" }, { "{}", "{\"a\":{\"bb\":{\"ccc\":null}}}", "{\"a\":{\"bb\":{}}}" } };
        for (auto& e : mt) expect(rv_equal_sets(merge_apply(J(e.o), J(e.p)), J(e.r)), std::string("RFC 7396: ") + e.o + " + " + e.p);
        // RFC 6902 appendix A (selection not in the test files): A.8 test success, A.9 test error, A.12 add to nonexistent target, A.15 ~ escapes, A.16 nested array add
        { RV d = J("{\"baz\":\"qux\",\"foo\":[\"a\",2,\"c\"]}"); PatchEval pe; expect(pe.apply(d, J("[{\"op\":\"test\",\"path\":\"/baz\",\"value\":\"qux\"},{\"op\":\"test\",\"path\":\"/foo/1\",\"value\":2}]")) == P_OK, "RFC 6902 A.8"); }
        { RV d = J("{\"baz\":\"qux\"}"); PatchEval pe; expect(pe.apply(d, J("[{\"op\":\"test\",\"path\":\"/baz\",\"value\":\"bar\"}]")) == P_FAIL, "RFC 6902 A.9"); }
        { RV d = J("{\"foo\":\"bar\"}"); PatchEval pe; expect(pe.apply(d, J("[{\"op\":\"add\",\"path\":\"/baz/bat\",\"value\":\"qux\"}]")) == P_FAIL, "RFC 6902 A.12"); }
        { RV d = J("{\"/\":9,\"~1\":10}"); PatchEval pe; expect(pe.apply(d, J("[{\"op\":\"test\",\"path\":\"/~01\",\"value\":10}]")) == P_OK, "RFC 6902 A.14"); }
        { RV d = J("{\"foo\":[\"bar\"]}"); PatchEval pe; expect(pe.apply(d, J("[{\"op\":\"add\",\"path\":\"/foo/-\",\"value\":[\"abc\",\"def\"]}]")) == P_OK && rv_equal_sets(d, J("{\"foo\":[\"bar\",[\"abc\",\"def\"]]}")), "RFC 6902 A.16"); }
        printf("selftest patch/pointer/merge: %d checks, %d failures\n", total, fails);
        return fails ? 1 : 0;
    }
    if (mode == "sdump") {
        static const uint8_t A[] = { '[', ']', '{', '}', ',', ':', '"', '\\', '/', 'u', 'D', '8', '0', '1', '-', '+', '.', 'e', 'E', 'a', 't', 'n', ' ', '\n', 0x1F, 0xC3, 0xA9, 0x80 };
        static const char* T[] = { "[", "]", "{", "}", ",", ":", "\"a\"", "\"\\u00e9\"", "1", "-2.5e1", "true", "false", "null", " ", "01", "\"\\ud83d\\ude00\"", "\"\\ud800\"", "1e400", "-0", "1E+2", "\"\\u0000\"", "\"\xc3\xa9\"" };
        auto emit = [](const std::string& s) { RV v; bool ok = S_parse((const uint8_t*)s.data(), s.size(), v); std::string c; if (ok) canon(v, c); printf("%s\t%s\t%s\n", hex(s.data(), s.size()).c_str(), ok ? "A" : "R", c.c_str()); };
        for (int k = 0; k <= 3; k++) { std::vector<int> od(k, 0); for (;;) { std::string s; for (int i = 0; i < k; i++) s += (char)A[od[i]]; emit(s); int i = k - 1; while (i >= 0 && ++od[i] == (int)sizeof A) od[i--] = 0; if (i < 0) break; } }
        int NT = sizeof T / sizeof *T; for (int k = 1; k <= 4; k++) { std::vector<int> od(k, 0); for (;;) { std::string s; for (int i = 0; i < k; i++) s += T[od[i]]; emit(s); int i = k - 1; while (i >= 0 && ++od[i] == NT) od[i--] = 0; if (i < 0) break; } }
        return 0;
    }
    return 2;
}
