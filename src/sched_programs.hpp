// Thread programs for C20: short sequences of library calls on thread-private data. `slot` (0..2) makes the data of each
// thread distinct so that any cross-talk between threads shows up in the returned observation string.
#pragma once
#include <string>
#include <vector>
#include <cstring>
#include <cstdio>
#include <cstdlib>
extern "C" {
#include "cJSON.h"
#include "cJSON_Utils.h"
}

namespace progs {

inline std::string S(int v) { return std::to_string(v); }
inline std::string take(char* p) { if (!p) return "(null)"; std::string s(p); cJSON_free(p); return s; }

inline std::string p_parse_print(int slot) {
    std::string text = "{\"id\":" + S(100 + slot) + ",\"name\":\"thread" + S(slot) + "\",\"list\":[" + S(slot) + ",1.5,true,null,{\"k\":\"v" + S(slot) + "\"}],\"e\":\"\\u00e9\\n\"}";
    cJSON* t = cJSON_Parse(text.c_str()); if (!t) return "parse failed";
    std::string r = take(cJSON_PrintUnformatted(t)) + "|" + take(cJSON_Print(t)); cJSON_Delete(t); return r;
}
inline std::string p_parse_fail(int slot) {
    std::string text = std::string(3 + slot * 2, ' ') + "[1, 2, {\"a\": tru" + S(slot) + "}]"; const char* end = nullptr;
    cJSON* t = cJSON_ParseWithOpts(text.c_str(), &end, 0); std::string r = t ? "unexpected success" : "NULL";
    r += " end=" + (end ? S((int)(end - text.c_str())) : std::string("(unset)")); if (t) cJSON_Delete(t);
    std::string t2 = "[" + S(slot) + ",]"; end = nullptr; t = cJSON_ParseWithLengthOpts(t2.c_str(), t2.size(), &end, 1); r += t ? " ok" : " NULL"; r += " end=" + (end ? S((int)(end - t2.c_str())) : std::string("(unset)")); if (t) cJSON_Delete(t);
    return r;
}
inline std::string p_construct(int slot) {
    cJSON* o = cJSON_CreateObject(); cJSON_AddNumberToObject(o, "n", 7 + slot); cJSON_AddStringToObject(o, "s", ("str" + S(slot)).c_str()); cJSON* a = cJSON_AddArrayToObject(o, "a");
    for (int i = 0; i < 4; i++) cJSON_AddItemToArray(a, cJSON_CreateNumber(i * 10 + slot)); cJSON_AddItemToObject(o, "t", cJSON_CreateTrue()); cJSON_AddNullToObject(o, "z");
    { char ctl[8] = { 'c', 1, (char)(2 + slot), 0x1f, (char)(0x0e + slot), '\n', 0 }; cJSON_AddStringToObject(o, "ctl", ctl); }   // control characters without a short escape
    std::string r = take(cJSON_PrintBuffered(o, 5 + slot, 1)) + "|" + take(cJSON_PrintBuffered(o, 500, 0)); cJSON_Delete(o); return r;
}
inline std::string p_numbers(int slot) {
    static const double base[] = { 0.1, 1e21, -2.5e-7, 123456789.125, 3.0e300, 4.9e-324 }; std::string r;
    cJSON* a = cJSON_CreateArray(); for (double d : base) cJSON_AddItemToArray(a, cJSON_CreateNumber(d * (slot + 1) + slot));
    std::string text = take(cJSON_PrintUnformatted(a)); cJSON_Delete(a); r = text; cJSON* b = cJSON_Parse(text.c_str()); if (b) { r += "|" + take(cJSON_PrintUnformatted(b)); char buf[64]; snprintf(buf, sizeof buf, "|%.17g", cJSON_GetArrayItem(b, 3)->valuedouble); r += buf; cJSON_Delete(b); }
    return r;
}
inline std::string p_prealloc(int slot) {
    char buf[256]; cJSON* t = cJSON_Parse(("[\"pre" + S(slot) + "\",{\"x\":[" + S(slot) + "," + S(slot * 3) + "]}]").c_str()); if (!t) return "parse failed";
    std::string r; for (int n : { 8, 200 }) for (int f = 0; f < 2; f++) { memset(buf, 'Q', sizeof buf); cJSON_bool ok = cJSON_PrintPreallocated(t, buf, n, f); r += ok ? std::string(buf) : std::string("false"); r += ";"; }
    cJSON_Delete(t); return r;
}
inline std::string p_dup_compare(int slot) {
    cJSON* t = cJSON_Parse(("{\"a\":[1,2,{\"b\":\"dup" + S(slot) + "\"}],\"c\":" + S(slot) + ".25}").c_str()); if (!t) return "parse failed";
    cJSON* d = cJSON_Duplicate(t, 1); std::string r = d ? "dup" : "NULL"; r += cJSON_Compare(t, d, 1) ? " equal" : " unequal";
    cJSON_SetNumberHelper(cJSON_GetObjectItem(d, "c"), 99 + slot); r += cJSON_Compare(t, d, 0) ? " equal" : " unequal"; r += "|" + take(cJSON_PrintUnformatted(d)); cJSON_Delete(d); cJSON_Delete(t); return r;
}
inline std::string p_edits(int slot) {
    int iv[4] = { 1 + slot, 2 + slot, 3 + slot, 4 + slot }; cJSON* a = cJSON_CreateIntArray(iv, 4);
    cJSON* x = cJSON_DetachItemFromArray(a, 1); cJSON_InsertItemInArray(a, 0, x); cJSON_ReplaceItemInArray(a, 2, cJSON_CreateString(("r" + S(slot)).c_str())); cJSON_DeleteItemFromArray(a, 3);
    cJSON* o = cJSON_CreateObject(); cJSON_AddItemToObject(o, "arr", a); cJSON_AddItemReferenceToObject(o, "ref", cJSON_GetArrayItem(a, 0)); cJSON_ReplaceItemInObjectCaseSensitive(o, "ref", cJSON_CreateNumber(slot)); cJSON_SetValuestring(cJSON_GetArrayItem(a, 2), ("longer value " + S(slot)).c_str());
    std::string r = take(cJSON_PrintUnformatted(o)); cJSON_Delete(o); return r;
}
inline std::string p_minify(int slot) {
    std::string t = "{ \"m" + S(slot) + "\" : [ 1 , /* c" + S(slot) + " */ 2 , \"a b\\\"\" ] , // line\n \"n\" : \"x y\" }"; std::vector<char> buf(t.begin(), t.end()); buf.push_back(0);
    cJSON_Minify(buf.data()); return std::string(buf.data());
}
inline std::string p_patch(int slot) {
    std::string from = "{\"list\":[0,1,2,3,4,5,6,7,8,9,10,11],\"a\":" + S(slot) + ",\"b/c\":{\"k\":1},\"gone\":true}", to = "{\"list\":[0,1,2,3,4,5,6,7,8,9" + std::string(slot == 0 ? "" : slot == 1 ? ",10" : "") + "],\"a\":" + S(slot + 5) + ",\"b/c\":{\"k\":2,\"n\":null},\"new\":\"v" + S(slot) + "\"}";
    cJSON* f = cJSON_Parse(from.c_str()); cJSON* t = cJSON_Parse(to.c_str()); if (!f || !t) return "parse failed";
    cJSON* p = cJSONUtils_GeneratePatchesCaseSensitive(f, t); std::string r = take(cJSON_PrintUnformatted(p));
    int st = cJSONUtils_ApplyPatchesCaseSensitive(f, p); r += "|status " + S(st) + "|" + take(cJSON_PrintUnformatted(f)); r += cJSON_Compare(f, t, 1) ? "|equal" : "|unequal";
    char* ptr = cJSONUtils_FindPointerFromObjectTo(t, cJSON_GetObjectItem(cJSON_GetObjectItem(t, "b/c"), "k")); r += "|" + take(ptr);
    cJSON_Delete(p); cJSON_Delete(f); cJSON_Delete(t); return r;
}
inline std::string p_merge(int slot) {
    cJSON* f = cJSON_Parse(("{\"z\":" + S(slot) + ",\"a\":{\"y\":1,\"b\":2},\"m\":[1,2]}").c_str()); cJSON* t = cJSON_Parse(("{\"a\":{\"b\":" + S(slot + 3) + ",\"c\":{}},\"m\":\"s" + S(slot) + "\",\"k\":true}").c_str()); if (!f || !t) return "parse failed";
    cJSON* p = cJSONUtils_GenerateMergePatchCaseSensitive(f, t); std::string r = take(cJSON_PrintUnformatted(p)); f = cJSONUtils_MergePatchCaseSensitive(f, p); r += "|" + take(cJSON_PrintUnformatted(f));
    cJSONUtils_SortObjectCaseSensitive(t); cJSONUtils_SortObject(f); r += cJSON_Compare(f, t, 1) ? "|equal" : "|unequal"; r += "|" + take(cJSON_PrintUnformatted(t));
    cJSON_Delete(p); cJSON_Delete(f); cJSON_Delete(t); return r;
}

inline std::string p_root_ops(int slot) {
    // whole-document patch operations (the root is replaced / removed in place); one document is embedded in an array
    cJSON* holder = cJSON_Parse(("[" + S(slot) + ",{\"r\":" + S(slot + 10) + "},\"tail" + S(slot) + "\"]").c_str()); cJSON* solo = cJSON_Parse(("{\"solo\":[" + S(slot) + "]}").c_str()); if (!holder || !solo) return "parse failed";
    cJSON* rep = cJSON_Parse(("[{\"op\":\"replace\",\"path\":\"\",\"value\":{\"v\":\"s" + S(slot) + "\"}}]").c_str()); cJSON* rem = cJSON_Parse("[{\"op\":\"remove\",\"path\":\"\"}]"); cJSON* add = cJSON_Parse(("[{\"op\":\"add\",\"path\":\"\",\"value\":[" + S(slot) + "]}]").c_str());
    std::string r; int st = cJSONUtils_ApplyPatchesCaseSensitive(solo, rep); r += S(st) + take(cJSON_PrintUnformatted(solo));
    st = cJSONUtils_ApplyPatchesCaseSensitive(solo, rem); r += "|" + S(st) + "type" + S(solo->type & 0xFF) + (solo->next || solo->prev || solo->child ? "LINKED" : "");
    st = cJSONUtils_ApplyPatches(solo, add); r += "|" + S(st) + take(cJSON_PrintUnformatted(solo));
    cJSON* mid = cJSON_GetArrayItem(holder, 1); st = cJSONUtils_ApplyPatchesCaseSensitive(mid, rem); r += "|" + S(st) + "size" + S(cJSON_GetArraySize(holder)) + (cJSON_GetArrayItem(holder, 2) && cJSON_IsString(cJSON_GetArrayItem(holder, 2)) ? "tail-ok" : "tail-lost");
    mid->type = cJSON_NULL; r += "|" + take(cJSON_PrintUnformatted(holder));
    cJSON_Delete(rep); cJSON_Delete(rem); cJSON_Delete(add); cJSON_Delete(solo); cJSON_Delete(holder); return r;
}

inline std::string p_large_tokens(int slot) {
    // tokens longer than any fixed scratch buffer (a static or cached buffer that only long inputs use is shared state like any other)
    std::string r; std::string num((size_t)70 + (size_t)slot, (char)('1' + slot)), frac = "0." + std::string((size_t)80, (char)('3' + slot)) + "e-" + S(slot + 1);
    for (const std::string& t : { num, "[" + frac + "," + S(slot) + "]", "-" + std::string(64, '0') + S(slot + 1) }) { cJSON* n = cJSON_Parse(t.c_str()); r += n ? take(cJSON_PrintUnformatted(n)) : std::string("NULL"); r += ";"; if (n) cJSON_Delete(n); }
    std::string nest, close; for (int i = 0; i < 40; i++) { nest += "["; close += "]"; }
    std::string text = "[\"" + std::string(300, (char)('a' + slot)) + "\\n\",{\"" + std::string(200, 'k') + S(slot) + "\":" + nest + S(slot) + close + "}]";
    cJSON* t = cJSON_Parse(text.c_str()); if (!t) return r + "parse failed";
    r += take(cJSON_Print(t)) + "|" + take(cJSON_PrintBuffered(t, 16, 0)); cJSON* d = cJSON_Duplicate(t, 1); r += cJSON_Compare(t, d, 1) ? "|equal" : "|unequal";
    cJSON_SetValuestring(cJSON_GetArrayItem(d, 0), std::string(600, (char)('A' + slot)).c_str()); cJSON_SetValuestring(cJSON_GetArrayItem(d, 0), ("short" + S(slot)).c_str()); r += "|" + take(cJSON_PrintUnformatted(cJSON_GetArrayItem(d, 0)));
    std::vector<char> buf(text.begin(), text.end()); buf.push_back(0); cJSON_Minify(buf.data()); r += "|" + S((int)strlen(buf.data()));
    char* ptr = cJSONUtils_FindPointerFromObjectTo(t, cJSON_GetArrayItem(t, 1)->child); r += "|" + take(ptr);
    cJSON_Delete(d); cJSON_Delete(t); return r;
}

typedef std::string (*Prog)(int);
struct Entry { const char* name; Prog fn; };
inline const std::vector<Entry>& all() {
    static const std::vector<Entry> v = { { "parse+print", p_parse_print }, { "failing-parse", p_parse_fail }, { "construct+PrintBuffered", p_construct }, { "numbers", p_numbers }, { "PrintPreallocated", p_prealloc },
                                          { "duplicate+compare", p_dup_compare }, { "edits", p_edits }, { "minify", p_minify }, { "patch-generate+apply", p_patch }, { "merge-patch+sort", p_merge }, { "whole-document-patches", p_root_ops }, { "large-tokens", p_large_tokens } };
    return v;
}
} // namespace progs
