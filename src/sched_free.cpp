// Free-running pass for C20: the same thread programs run truly concurrently under the real ThreadSanitizer runtime
// (no scheduler, no ledger, no locks in the harness, so no artificial happens-before edge hides a race).
// Reports are filtered by vcheck: races on the documented global error position are expected.
#include "sched_programs.hpp"
#include <pthread.h>
#include <atomic>
static std::atomic<int> ready{0}; static int nthreads = 2;
struct Arg { progs::Prog fn; int slot; std::string out; };
static void* body(void* p) { Arg* a = (Arg*)p; ready.fetch_add(1); while (ready.load() < nthreads) { } a->out = a->fn(a->slot); return nullptr; }
int main(int argc, char** argv) {
    int iters = argc > 1 ? atoi(argv[1]) : 30; auto& P = progs::all(); int n = (int)P.size(); long diffs = 0, runs = 0;
    std::vector<std::vector<std::string>> ref(n, std::vector<std::string>(3));
    for (int i = 0; i < n; i++) for (int s = 0; s < 3; s++) ref[i][s] = P[i].fn(s);
    for (int it = 0; it < iters; it++) for (int i = 0; i < n; i++) for (int j = i; j < n; j++) {
        Arg a[2] = { { P[i].fn, 0, "" }, { P[j].fn, 1, "" } }; pthread_t th[2]; ready.store(0);
        for (int t = 0; t < 2; t++) pthread_create(&th[t], nullptr, body, &a[t]);
        for (int t = 0; t < 2; t++) pthread_join(th[t], nullptr);
        runs++;
        if (a[0].out != ref[i][0]) { diffs++; printf("FREE-RESULT-DIFF %s || %s : thread 0 got \"%s\" expected \"%s\"\n", P[i].name, P[j].name, a[0].out.substr(0, 120).c_str(), ref[i][0].substr(0, 120).c_str()); }
        if (a[1].out != ref[j][1]) { diffs++; printf("FREE-RESULT-DIFF %s || %s : thread 1 got \"%s\" expected \"%s\"\n", P[i].name, P[j].name, a[1].out.substr(0, 120).c_str(), ref[j][1].substr(0, 120).c_str()); }
    }
    printf("FREE-RUNS %ld DIFFS %ld\n", runs, diffs);
    return 0;
}
