// x_compare (C12): all ordered pairs of enumerated trees x {case-sensitive, case-insensitive} through cJSON_Compare,
// against reference equality on the value model; trees are built in three ownership variants.
#include "sup.hpp"
#include "trees.hpp"
#include "hist_model.hpp"
#include <math.h>
#include <float.h>
using namespace vf;

namespace {
enum Tri { NO = 0, YES = 1, ANY = 2 };
Tri num_eq(double a, double b) {
    bool fa = std::isfinite(a), fb = std::isfinite(b);
    if (!fa && !fb) return ANY;
    if (fa != fb) return NO;
    if (a == b) return YES;
    long double d = fabsl((long double)a - (long double)b), m = fmaxl(fabsl((long double)a), fabsl((long double)b)), tol = m * (long double)DBL_EPSILON;
    return d <= tol ? YES : NO;   // "equal within relative DBL_EPSILON": the boundary is inside
}
Tri both(Tri a, Tri b) { if (a == NO || b == NO) return NO; if (a == ANY || b == ANY) return ANY; return YES; }
Tri ref_eq(const RV& a, const RV& b, bool cs) {
    if (a.k != b.k) return NO;
    switch (a.k) {
        case RV::Num: return num_eq(a.num, b.num);
        case RV::Str: case RV::Raw: return a.str == b.str ? YES : NO;
        case RV::Arr: { if (a.arr.size() != b.arr.size()) return NO; Tri r = YES; for (size_t i = 0; i < a.arr.size(); i++) r = both(r, ref_eq(a.arr[i], b.arr[i], cs)); return r; }
        case RV::Obj: {
            if (a.obj.size() != b.obj.size()) return NO; Tri r = YES;
            for (auto& kv : a.obj) { const RV* o = nullptr; for (auto& kw : b.obj) if (cs ? kw.first == kv.first : fold(kw.first) == fold(kv.first)) { o = &kw.second; break; } if (!o) return NO; r = both(r, ref_eq(kv.second, *o, cs)); }
            return r;
        }
        default: return YES;
    }
}
bool distinct_keys(const RV& v, bool cs) {
    for (size_t i = 0; i < v.obj.size(); i++) for (size_t j = i + 1; j < v.obj.size(); j++) if (cs ? v.obj[i].first == v.obj[j].first : fold(v.obj[i].first) == fold(v.obj[j].first)) return false;
    for (auto& e : v.arr) if (!distinct_keys(e, cs)) return false;
    for (auto& e : v.obj) if (!distinct_keys(e.second, cs)) return false;
    return true;
}
bool has_nan(const RV& v) { if (v.k == RV::Num) return std::isnan(v.num); for (auto& e : v.arr) if (has_nan(e)) return true; for (auto& e : v.obj) if (has_nan(e.second)) return true; return false; }

struct XCompare : Engine {
    struct Lits { GuardMap gm; const char* a; const char* A; const char* b; const char* s; const char* t; void init() { gm.create(4096); const uint8_t* ro; gm.place_begin("a\0A\0b\0s\0t\0", 10, &ro); a = (const char*)ro; A = a + 2; b = a + 4; s = a + 6; t = a + 8; } };
    std::vector<RV> T; std::vector<cJSON*> real[3]; std::vector<std::string> text; std::vector<cJSON*> keep; cJSON invalid_node; std::string built_for; bool verbose = false; Lits* lits = nullptr;
    const char* name() override { return "x_compare"; }
    std::vector<std::string> counter_names() override { return { "pairs", "model_equal", "model_unequal", "unconstrained", "compare_calls", "self_and_variant_checks" }; }
    std::vector<std::string> stages() override { std::vector<std::string> st = { "n1", "n2", "keys", "lengths", "counts", "n3" }; if (cfg.thorough()) st.push_back("n4r"); st.push_back("special"); return st; }
    std::vector<std::string*> keypool;
    const char* ckey(const std::string& k) { if (k == "a") return lits->a; if (k == "A") return lits->A; if (k == "b") return lits->b; keypool.push_back(new std::string(k)); return keypool.back()->c_str(); }

    static std::vector<RV> leaves(bool reduced) {
        double e = DBL_EPSILON; std::vector<RV> l = { RV::mk(RV::Null), RV::mk(RV::True), RV::number(1), RV::number(1 + 2 * e), RV::string("s"), RV::number(INFINITY) };
        if (!reduced) { RV raw = RV::mk(RV::Raw); raw.str = "s"; RV raw2 = RV::mk(RV::Raw); raw2.str = "t"; RV raw3 = RV::mk(RV::Raw); raw3.str = "1";   // raw text equal to / different from string values and from each other
            for (auto& x : std::vector<RV>{ RV::mk(RV::False), RV::number(0), RV::number(nextafter(1.0, 2.0)), RV::number(1e300), RV::number(nextafter(1e300, INFINITY)), RV::number(0x1.8p-1022), RV::number(0x1.8p-1022 + 2 * 0x1p-1074), RV::number(5e-324), RV::number(NAN), RV::number(-1), RV::number(3.0), RV::number(nextafter(3.0, 0.0)), RV::number(-(1.0 - DBL_EPSILON)), RV::string("t"), RV::string(""), raw, raw2, raw3, RV::number(DBL_MAX), RV::number(nextafter(DBL_MAX, 0.0)), RV::number(-DBL_MAX), RV::number(-INFINITY), RV::number(2147483648.0), RV::number(2147483649.0), RV::number(-1e300) }) l.push_back(x); }
        return l;
    }
    int group = 0;   // > 0: the trees come in groups of this size and only pairs inside a group are compared
    void build(const std::string& stage) {
        if (built_for == stage) return; built_for = stage;
        if (!lits) { lits = new Lits(); lits->init(); }
        T.clear(); for (int v = 0; v < 3; v++) real[v].clear(); text.clear();
        int n = stage == "n1" ? 1 : stage == "n2" ? 2 : stage == "n3" ? 3 : stage == "n4r" ? 4 : 2;
        TreeAlphabet al; al.leaves = leaves(stage == "n4r"); al.keys = { "a", "A", "b" }; al.dup_keys = false; al.max_arity = 3; al.max_depth = 3;
        group = 0;
        if (stage == "lengths") {
            // strings and member names of every length 0..300 and around 512 / 1024: each against itself, a copy that differs in the last / a middle character, one that is one longer,
            // case variants, a non-ASCII last character; compared within the group of the same length
            std::vector<int> lad; for (int i = 0; i <= 300; i++) lad.push_back(i); for (int i : { 511, 512, 513, 1023, 1024, 1025 }) lad.push_back(i);
            for (int L : lad) { std::string S; for (int i = 0; i < L; i++) S += (char)('a' + (i * 7 + 3) % 26);
                std::string last = S, mid = S, up = S, lastup = S, na = S, naup = S; if (L) { last[(size_t)L - 1] = last[(size_t)L - 1] == 'z' ? 'y' : 'z'; mid[(size_t)L / 2] = '#'; for (auto& ch : up) ch = (char)toupper(ch); lastup[(size_t)L - 1] = (char)toupper(lastup[(size_t)L - 1]); na[(size_t)L - 1] = (char)0xE9; naup = na; naup[0] = (char)toupper(naup[0]); } else { last = "z"; mid = "#"; up = "Q"; lastup = "q"; na = "\xE9"; naup = "\xC9"; }
                auto O1 = [](const std::string& k, double v) { RV o = RV::mk(RV::Obj); o.obj.emplace_back(k, RV::number(v)); return o; };
                RV two = RV::mk(RV::Obj); two.obj.emplace_back(S, RV::number(1)); two.obj.emplace_back(S + "x", RV::number(2)); RV two2 = RV::mk(RV::Obj); two2.obj.emplace_back(S + "x", RV::number(2)); two2.obj.emplace_back(S, RV::number(1));
                RV raw = RV::mk(RV::Raw); raw.str = S; RV arr = RV::mk(RV::Arr); arr.arr = { RV::string(S), RV::string(last) };
                std::vector<RV> g = { RV::string(S), RV::string(last), RV::string(S + "x"), RV::string(mid), O1(S, 1), O1(last, 1), O1(up, 1), O1(lastup, 1), O1(S + "x", 1), two, two2, O1(na, 1), O1(naup, 1), raw, arr, O1(S, 2) };
                group = (int)g.size(); for (auto& t : g) T.push_back(t); }
        } else if (stage == "counts") {
            // containers with every member count up to 70 and some larger ones: same members in another order, one value / one name changed, one member missing
            std::vector<int> lad; for (int i = 0; i <= 70; i++) lad.push_back(i); for (int i : { 100, 127, 128, 129, 255, 256, 257, 1000 }) lad.push_back(i);
            for (int n : lad) { auto key = [](int i) { char b[16]; snprintf(b, sizeof b, "k%04d", i * 37 % 10007); return std::string(b); };
                RV o = RV::mk(RV::Obj), a = RV::mk(RV::Arr); for (int i = 0; i < n; i++) { o.obj.emplace_back(key(i), RV::number(i)); a.arr.push_back(RV::number(i)); }
                RV rev = o; std::reverse(rev.obj.begin(), rev.obj.end()); RV rot = o; if (n > 1) std::rotate(rot.obj.begin(), rot.obj.begin() + 1, rot.obj.end());
                RV val = o; if (n) val.obj[(size_t)n / 2].second = RV::number(-1); RV nam = o; if (n) nam.obj[(size_t)n - 1].first = "zz"; RV mis = o; if (n) mis.obj.pop_back(); RV fst = o; if (n) fst.obj.erase(fst.obj.begin());
                RV al = a; if (n) al.arr[(size_t)n - 1] = RV::number(-1); RV am = a; if (n) am.arr.pop_back(); RV ar = a; std::reverse(ar.arr.begin(), ar.arr.end()); RV af = a; if (n) af.arr[0] = RV::string("s");
                std::vector<RV> g = { o, rev, rot, val, nam, mis, fst, a, al, am, ar, af };
                group = (int)g.size(); for (auto& t : g) T.push_back(t); }
        } else
        if (stage == "keys") {   // one-member objects over every single-byte key and some two-byte keys: exercises the key comparison itself
            std::vector<std::string> ks; for (int b = 1; b < 256; b++) ks.push_back(std::string(1, (char)b));
            for (const char* k : { "ab", "Ab", "aB", "AB", "a[", "a{", "a@", "a`", "", "aa", "a", "abc", "ABC", "Abd" }) ks.push_back(k);
            for (auto& k : ks) { RV o = RV::mk(RV::Obj); o.obj.emplace_back(k, RV::number(1)); T.push_back(o); }
        } else
        T = enumerate_trees(al, n);
        for (auto& rv : T) { for (int v = 0; v < 3; v++) real[v].push_back(mk(rv, v)); Walk w = walk(real[0].back(), W_NO_OWNED); text.push_back(w.text); }
    }
    // ownership variants: 0 = plain API, 1 = constant keys and array elements with stale member names, 2 = string references + reference nodes in containers
    cJSON* mk(const RV& v, int var) {
        switch (v.k) {
            case RV::Str: if (var == 2 && (v.str == "s" || v.str == "t")) return LIB(cJSON_CreateStringReference(v.str == "s" ? lits->s : lits->t)); return build_tree(v);
            case RV::Arr: { cJSON* a = LIB(cJSON_CreateArray()); for (auto& e : v.arr) { cJSON* c = mk(e, var); if (var == 2) { LIBV(cJSON_AddItemReferenceToArray(a, c)); keep.push_back(c); } else { if (var == 1) give_stale_name(c, (a->child ? "a" : "b")); LIBV(cJSON_AddItemToArray(a, c)); } } return a; }
            case RV::Obj: { cJSON* o = LIB(cJSON_CreateObject()); for (auto& e : v.obj) { cJSON* c = mk(e.second, var); if (var == 1) LIBV(cJSON_AddItemToObjectCS(o, ckey(e.first), c)); else if (var == 2) { LIBV(cJSON_AddItemReferenceToObject(o, e.first.c_str(), c)); keep.push_back(c); } else LIBV(cJSON_AddItemToObject(o, e.first.c_str(), c)); } return o; }
            default: return build_tree(v);
        }
    }
    void enumerate(const std::string& stage) override {
        build(stage);
        if (stage == "special") { for (int k = 0; k < 1; k++) { if (!pool_take()) continue; static Case c; c.kind = 2; c.len = 0; pool_run(c); } return; }
        size_t n = T.size();
        for (size_t i = 0; i < n; i++) {
            if (!pool_take()) continue;
            static Case c; c.len = 0;
            for (size_t j = (group ? i / (size_t)group * (size_t)group : 0); j < (group ? (i / (size_t)group + 1) * (size_t)group : n); j++) for (int cs = 0; cs < 2; cs++) { c.kind = 0; c.iv[1] = (int64_t)i; c.iv[2] = (int64_t)j; c.iv[3] = cs; pool_run(c); }
            c.kind = 1; c.iv[1] = (int64_t)i; pool_run(c);
        }
    }
    void run_case(const Case& c, bool vb) override {
        verbose = vb; if (c.kind != 2 && built_for.empty()) build(cfg.opt.count("stage") ? cfg.opt["stage"] : "n3");
        auto V = [&](const char* sig, const std::string& m) { violation(std::string("compare:") + sig, m); };
        if (c.kind == 0) {
            size_t i = (size_t)c.iv[1], j = (size_t)c.iv[2]; bool cs = c.iv[3] != 0; if (i >= T.size() || j >= T.size()) return;
            int vb2 = (int)((i + j) % 3);
            static const int TRUTHY[4] = { 1, 2, -1, 256 };   // cJSON_bool is an int: every non-zero value requests the case-sensitive comparison; the reversed call cycles through them
            const int csv = cs ? TRUTHY[(i * 7 + j) & 3] : 0;
            cJSON_bool ab = LIB(cJSON_Compare(real[0][i], real[vb2][j], cs)), ba = LIB(cJSON_Compare(real[vb2][j], real[0][i], csv)); ctr().calls += 2; ctr().extra[4] += 2; ctr().extra[0]++;
            if (vb) printf("  Compare(%s , %s , cs=%d) = %d / reversed (case_sensitive=%d) %d (variant %d)\n", rv_text(T[i]).c_str(), rv_text(T[j]).c_str(), (int)cs, ab, csv, ba, vb2);
            Tri m = ANY; if (distinct_keys(T[i], cs) && distinct_keys(T[j], cs)) m = ref_eq(T[i], T[j], cs);
            std::string d = rv_text(T[i]) + " vs " + rv_text(T[j]) + (cs ? " (case-sensitive)" : " (case-insensitive)") + ", second tree built as ownership variant " + std::to_string(vb2);
            if (m == ANY) { ctr().extra[3]++; return; }
            ctr().compared++; if (m == YES) { ctr().extra[1]++; ctr().nontrivial++; } else ctr().extra[2]++;
            if ((ab != 0) != (m == YES)) V(m == YES ? "equal-values-compare-unequal" : "different-values-compare-equal", "cJSON_Compare returned " + std::to_string(ab) + " for " + d);
            else if ((ab != 0) != (ba != 0)) V("not-symmetric", "Compare(a,b)=" + std::to_string(ab) + " but Compare(b,a)=" + std::to_string(ba) + " (reversed call made with case_sensitive=" + std::to_string(csv) + ") for " + d);
            note_outcome((uint64_t)m | (uint64_t)(ab != 0) << 2 | (uint64_t)T[i].k << 3 | (uint64_t)T[j].k << 7);
        } else if (c.kind == 1) {
            size_t i = (size_t)c.iv[1]; if (i >= T.size()) return; ctr().extra[5]++;
            // reflexive (same pointer), equal to each of its own ownership variants, unchanged, NULL / invalid never equal
            for (int cs = 0; cs < 2; cs++) {
                if (!LIB(cJSON_Compare(real[0][i], real[0][i], cs))) V("not-reflexive", "Compare(a, a) is false for " + rv_text(T[i]));
                if (!has_nan(T[i]) && distinct_keys(T[i], cs != 0)) for (int v = 1; v < 3; v++) if (!LIB(cJSON_Compare(real[0][i], real[v][i], cs)) || !LIB(cJSON_Compare(real[v][i], real[0][i], cs))) V("ownership-flags-matter", "tree and its ownership variant " + std::to_string(v) + " compare unequal: " + rv_text(T[i]));
                if (LIB(cJSON_Compare(real[0][i], nullptr, cs)) || LIB(cJSON_Compare(nullptr, real[0][i], cs))) V("null-compares-equal", "Compare with NULL returned true");
                memset(&invalid_node, 0, sizeof invalid_node);
                if (LIB(cJSON_Compare(real[0][i], &invalid_node, cs)) || LIB(cJSON_Compare(&invalid_node, real[0][i], cs))) V("invalid-compares-equal", "Compare with an invalid node returned true");
                ctr().calls += 8;
            }
            Walk w = walk(real[0][i], W_NO_OWNED); if (!w.ok || w.text != text[i]) V("argument-modified", "cJSON_Compare modified its argument: " + rv_text(T[i]));
        } else {
            memset(&invalid_node, 0, sizeof invalid_node);
            for (int cs = 0; cs < 2; cs++) { if (LIB(cJSON_Compare(nullptr, nullptr, cs))) V("null-compares-equal", "Compare(NULL, NULL) returned true"); if (LIB(cJSON_Compare(&invalid_node, &invalid_node, cs))) V("invalid-compares-equal", "Compare(invalid, invalid) returned true for the same node"); }
            cJSON weird; memset(&weird, 0, sizeof weird); weird.type = cJSON_Number | cJSON_String;
            if (LIB(cJSON_Compare(&weird, &weird, 1))) V("invalid-compares-equal", "node with two type bits compares equal to itself");
            // string / raw nodes without a value are invalid and never equal, not even to each other
            { cJSON* n1 = LIB(cJSON_CreateStringReference(nullptr)); cJSON* n2 = LIB(cJSON_CreateStringReference(nullptr)); cJSON* ok = LIB(cJSON_CreateString(""));
              for (int cs = 0; cs < 2; cs++) { if (LIB(cJSON_Compare(n1, n2, cs)) || LIB(cJSON_Compare(n1, ok, cs)) || LIB(cJSON_Compare(ok, n2, cs))) V("invalid-compares-equal", "string node with NULL valuestring compares equal");
                  cJSON* a1 = LIB(cJSON_CreateArray()); cJSON* a2 = LIB(cJSON_CreateArray()); LIBV(cJSON_AddItemReferenceToArray(a1, n1)); LIBV(cJSON_AddItemReferenceToArray(a2, n2)); if (LIB(cJSON_Compare(a1, a2, cs))) V("invalid-compares-equal", "arrays holding string nodes with NULL valuestring compare equal"); LIBV(cJSON_Delete(a1)); LIBV(cJSON_Delete(a2)); }
              LIBV(cJSON_Delete(n1)); LIBV(cJSON_Delete(n2)); LIBV(cJSON_Delete(ok)); }
            // nodes whose value was changed through the setters (shrunk / grown in place, re-set numbers and booleans), their duplicates and parsed equivalents:
            // equality is decided by the current value alone
            for (int lo : { 0, 1, 5, 40, 300 }) for (int ln : { 0, 1, 5, 40, 300 }) {
                std::string so((size_t)lo, 'o'), sn((size_t)ln, 'n'); cJSON* m = LIB(cJSON_CreateString(so.c_str())); LIBV(cJSON_SetValuestring(m, sn.c_str())); cJSON* fresh = LIB(cJSON_CreateString(sn.c_str())); cJSON* old = LIB(cJSON_CreateString(so.c_str()));
                cJSON* dup = LIB(cJSON_Duplicate(m, 1)); std::string txt = "\"" + sn + "\""; cJSON* parsed = LIB(cJSON_Parse(txt.c_str())); cJSON* arr_m = LIB(cJSON_CreateArray()); LIBV(cJSON_AddItemToArray(arr_m, LIB(cJSON_Duplicate(m, 1)))); cJSON* arr_f = LIB(cJSON_Parse(("[" + txt + "]").c_str()));
                bool took = m->valuestring && sn == m->valuestring;   // SetValuestring may refuse (it does not for owned strings)
                for (int cs = 0; cs < 2 && took; cs++) {
                    if (!LIB(cJSON_Compare(m, fresh, cs)) || !LIB(cJSON_Compare(fresh, m, cs)) || !LIB(cJSON_Compare(dup, fresh, cs)) || !LIB(cJSON_Compare(parsed, m, cs)) || !LIB(cJSON_Compare(m, parsed, cs)) || !LIB(cJSON_Compare(arr_m, arr_f, cs)) || !LIB(cJSON_Compare(arr_f, arr_m, cs)))
                        V("equal-values-compare-unequal", "a string set to a value of length " + std::to_string(ln) + " with cJSON_SetValuestring (was " + std::to_string(lo) + " long), or its duplicate, compares unequal to an equal created / parsed string");
                    if (so != sn && (LIB(cJSON_Compare(m, old, cs)) || LIB(cJSON_Compare(old, dup, cs)))) V("different-values-compare-equal", "a string changed with cJSON_SetValuestring still compares equal to its old value");
                }
                for (cJSON* x : { m, fresh, old, dup, parsed, arr_m, arr_f }) if (x) LIBV(cJSON_Delete(x));
            }
            { static const double vals[] = { 0, 1, -1, 2.5, 2147483647.0, 2147483648.0, -2147483649.0, 1e300, 5e-324 };
              for (double a : vals) for (double b : vals) { cJSON* m = LIB(cJSON_CreateNumber(a)); LIBV(cJSON_SetNumberHelper(m, b)); cJSON* fresh = LIB(cJSON_CreateNumber(b)); cJSON* old = LIB(cJSON_CreateNumber(a)); cJSON* dup = LIB(cJSON_Duplicate(m, 1));
                  for (int cs = 0; cs < 2; cs++) { if (!LIB(cJSON_Compare(m, fresh, cs)) || !LIB(cJSON_Compare(fresh, dup, cs))) V("equal-values-compare-unequal", "a number re-set with cJSON_SetNumberHelper compares unequal to an equal created number"); if (a != b && LIB(cJSON_Compare(m, old, cs))) V("different-values-compare-equal", "a number re-set with cJSON_SetNumberHelper still compares equal to its old value"); }
                  for (cJSON* x : { m, fresh, old, dup }) LIBV(cJSON_Delete(x)); }
              cJSON* t = LIB(cJSON_CreateTrue()); cJSON* f = LIB(cJSON_CreateFalse()); cJSON* t2 = LIB(cJSON_CreateTrue()); cJSON_SetBoolValue(t, 0); cJSON_SetBoolValue(f, 1);
              for (int cs = 0; cs < 2; cs++) if (!LIB(cJSON_Compare(f, t2, cs)) || LIB(cJSON_Compare(t, t2, cs))) V("equal-values-compare-unequal", "booleans changed with cJSON_SetBoolValue compare by their old value");
              for (cJSON* x : { t, f, t2 }) LIBV(cJSON_Delete(x)); }
            // trees using every nesting level the parser accepts
            // (objects only 16 deep: cJSON_Compare visits every object member twice per level, i.e. 2^depth work for nested objects)
            for (int shape = 0; shape < 2; shape++) { std::string t; const int d = shape ? 16 : CJSON_NESTING_LIMIT; for (int i = 0; i < d; i++) t += shape ? "{\"k\":" : "["; t += "7"; for (int i = 0; i < d; i++) t += shape ? "}" : "]"; std::string t2 = t; t2[t2.find('7')] = '8';
                cJSON* x = LIB(cJSON_Parse(t.c_str())); cJSON* y = LIB(cJSON_Parse(t.c_str())); cJSON* z = LIB(cJSON_Parse(t2.c_str()));
                if (!x || !y || !z) V("deep-parse-failed", "cannot parse a text nested exactly CJSON_NESTING_LIMIT deep");
                else for (int cs = 0; cs < 2; cs++) { if (!LIB(cJSON_Compare(x, y, cs)) || !LIB(cJSON_Compare(y, x, cs))) V("equal-values-compare-unequal", "two equal trees nested CJSON_NESTING_LIMIT deep compare unequal"); if (LIB(cJSON_Compare(x, z, cs))) V("different-values-compare-equal", "deep trees differing in the innermost leaf compare equal"); }
                if (x) LIBV(cJSON_Delete(x)); if (y) LIBV(cJSON_Delete(y)); if (z) LIBV(cJSON_Delete(z)); }
            ctr().calls += 25; ctr().compared++;
        }
    }
    void before_stage(const std::string& stage) override { if (stage.find("replay:") == 0) { cfg.opt["stage"] = stage.substr(7); built_for.clear(); build(stage.substr(7)); } }
    std::string describe(const Case& c) override { if (c.kind == 2) return "NULL / invalid nodes"; size_t i = (size_t)c.iv[1], j = (size_t)c.iv[2]; if (i >= T.size() || (c.kind == 0 && j >= T.size())) return "pair"; return c.kind == 1 ? "self/variants of " + rv_text(T[i]) : rv_text(T[i]) + " vs " + rv_text(T[j]) + (c.iv[3] ? " cs" : " ci"); }
    void finish(std::map<std::string, std::string>& x) override {
        x["rule"] = jstr("all ordered pairs (a,b) of all trees with <= n nodes over 31 leaves (incl. numbers one and two epsilon apart, huge, tiny, denormal, infinite, NaN, raw) and keys {a,A,b} x {case-sensitive, case-insensitive}; b is built in one of three ownership variants "
                         "(plain, constant keys, string references + reference nodes); non-trivial = pairs the model calls equal; pairs left open by the statement (both non-finite, exactly on the tolerance boundary, keys colliding after folding) are counted as unconstrained; plus, compared inside groups of the same size: strings / member names of every length 0..300 and around 512 / 1024 with near-miss variants, containers of every member count 0..70 and around 128 / 256 / 1000 with permuted / changed / missing members");
    }
};
} // namespace
int main(int argc, char** argv) { XCompare e; return engine_main(argc, argv, e); }
