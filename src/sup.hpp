// Shared support for all explorers: allocator ledger, guard-page buffers, worker pool with crash
// capture, reference values, structural walk, strict (S) and lenient (L) JSON recognisers, result files.
#pragma once
#ifndef _GNU_SOURCE
#define _GNU_SOURCE
#endif
#include <cstdint>
#include <cstddef>
#include <cstdio>
#include <cstdlib>
#include <cstring>
#include <string>
#include <vector>
#include <map>
#include <set>
#include <functional>
#include <utility>

extern "C" {
#include "cJSON.h"
#include "cJSON_Utils.h"
}

namespace vf {

// ------------------------------------------------------------------ allocator ledger
// All library-side allocation is observed here: through --wrap=malloc/realloc/free/calloc when the
// default allocator is active and through hook_malloc/hook_free when custom hooks are installed.
extern thread_local int in_lib;          // >0 while a library call made by the harness is running
struct InLib { InLib() { ++in_lib; } ~InLib() { --in_lib; } };
#define LIB(e) ([&]() -> decltype(auto) { ::vf::InLib _g; return (e); }())
#define LIBV(e) do { ::vf::InLib _g; (e); } while (0)

struct LedgerStats {
    long live;                // live blocks obtained by the library
    uint64_t requests;        // allocation requests (malloc + realloc) made by the library since reset/arm
    uint64_t allocs, frees, reallocs;
    uint64_t libc_from_lib;   // calls that reached malloc/realloc/free directly from library context
    uint64_t hook_allocs, hook_frees;
    uint64_t errors;          // double/foreign/interior free, cross-allocator release, header damage
    char first_error[200];
};
extern LedgerStats L;
void ledger_reset_counters();             // zero counters (live set is kept)
long ledger_live();
void ledger_arm_fault(uint64_t kth, bool from_then_on);   // k counted from now (1 = next request); 0 disarms
void ledger_arm_fault2(uint64_t k1, uint64_t k2);          // two refused requests (k1 < k2), counted from now
bool ledger_fault_fired();
bool ledger_is_live(const void* p);       // block currently owned by the library
size_t ledger_block_size(const void* p);
void ledger_error(const char* what);
void ledger_forget_all();                 // drop live set (after a crash-free abandoned state; leaks memory on purpose)
std::vector<const void*> ledger_live_blocks();
void* hook_malloc(size_t n);              // tagged custom allocator (for cJSON_InitHooks)
void hook_free(void* p);
enum HookCfg { HK_DEFAULT = 0, HK_CUSTOM = 1, HK_MALLOC_ONLY = 2, HK_FREE_ONLY = 3, HK_RESET_NULL = 4, HK_NULL_MEMBERS = 5, HK_CUSTOM_THEN_MALLOC_ONLY = 6, HK_CUSTOM_THEN_FREE_ONLY = 7, HK_NCFG = 8 };
void* hook_malloc_thin(size_t n);          // counting pass-through to the C library allocator (for one-sided hook configurations)
void hook_free_thin(void* p);
void install_hooks(HookCfg c);
extern HookCfg current_hooks;

// ------------------------------------------------------------------ guard-page buffers
// One memfd mapped twice: `rw` for the harness, `ro` (PROT_READ) for the library; both views are
// surrounded by PROT_NONE pages, so a 1-byte over/under-read faults and any write through `ro` faults.
struct GuardMap {
    uint8_t* rw = nullptr; uint8_t* ro = nullptr; size_t size = 0;
    void create(size_t bytes);
    // place n bytes so that the last byte is the last accessible byte; returns rw pointer, *ro_out the read-only alias
    uint8_t* place_end(const void* src, size_t n, const uint8_t** ro_out);
    uint8_t* place_begin(const void* src, size_t n, const uint8_t** ro_out);
};

// ------------------------------------------------------------------ reference values
struct RV {
    enum K { Null, False, True, Num, Str, Raw, Arr, Obj } k = Null;
    double num = 0;
    std::string str;
    std::vector<RV> arr;
    std::vector<std::pair<std::string, RV>> obj;
    static RV mk(K k) { RV r; r.k = k; return r; }
    static RV number(double d) { RV r; r.k = Num; r.num = d; return r; }
    static RV string(const std::string& s) { RV r; r.k = Str; r.str = s; return r; }
};
bool rv_equal_ordered(const RV& a, const RV& b);           // objects compared in order, numbers bitwise (+0 == -0)
bool rv_equal_sets(const RV& a, const RV& b);              // objects as key->value sets (keys assumed distinct), numbers ==
std::string rv_text(const RV& v);                          // compact strict JSON (reference printer)
int saturate_int(double d);                                // the statement's integer view

// strict RFC 8259 decoder. Whole buffer must be  ws value ws  (no BOM/NUL handling here).
bool S_parse(const uint8_t* p, size_t n, RV& out);
// S applied to a parse-entry-point buffer: [BOM] ws value ws [NUL]; has_nul tells whether a NUL terminator ended it
bool S_buffer(const uint8_t* p, size_t n, RV& out, bool* has_nul);
enum Verdict { REJECT = 0, ACCEPT = 1, UNKNOWN = 2 };
// lenient dialect L (superset of everything the property lets the library accept)
Verdict L_buffer(const uint8_t* p, size_t n, bool require_nul);
// offset just behind the first value under the lenient dialect (BOM and leading whitespace skipped); -1: no value / not decidable
long L_value_end(const uint8_t* p, size_t n, bool skip_bom);
bool valid_utf8(const std::string& s);
bool RV_parse_lenient(const std::string& text, RV& out);   // lenient dialect, whole text
std::string rv_ser(const RV& v);                           // loss-free serialisation of a reference value (case descriptors)
bool rv_deser(const std::string& s, RV& out);

// ------------------------------------------------------------------ structural walk of a real tree
struct Walk {
    bool ok = true; std::string err; std::string text; size_t nodes = 0; size_t maxdepth = 0;
    std::vector<const void*> owned;   // node blocks, owned strings, owned keys (not const keys, not borrowed)
};
enum { W_ROOT_LINKS = 1, W_NO_OWNED = 2, W_ALLOW_NONFINITE = 4 };
Walk walk(const cJSON* root, int flags = W_ROOT_LINKS);
bool match_rv(const cJSON* n, const RV& v, std::string& why, bool check_int = true);   // tree == reference value (ordered)
RV rv_from_tree(const cJSON* n);       // value view of a real tree (no validation)
cJSON* build_tree(const RV& v);        // construct through the public Create*/AddItem* API (LIB context inside)
cJSON* build_tree_named(const RV& v);  // same as build_tree, but every array element carries a stale member name (as after Detach from an object + AddItemToArray)
void give_stale_name(cJSON* item, const char* name);
cJSON* build_tree_cs(const RV& v);     // same, object members attached with cJSON_AddItemToObjectCS (keys borrowed from v, which must outlive the tree)
std::string hex(const void* p, size_t n);
std::string unhex(const std::string& h);
std::string printable(const std::string& s);   // C-style escaped rendering for messages
std::string jstr(const std::string& s);        // JSON string literal (for result files)

// ------------------------------------------------------------------ cases, violations, worker pool
struct Case {
    uint32_t kind = 0;
    int64_t iv[12] = {0};
    uint32_t len = 0;
    uint8_t data[16384];
    void set(const void* p, size_t n) { len = (uint32_t)(n > sizeof data ? sizeof data : n); memcpy(data, p, len); }
    void set(const std::string& s) { set(s.data(), s.size()); }
    std::string str() const { return std::string((const char*)data, len); }
};

struct Config {
    std::string prop, tier, engine, outdir;
    int jobs = 16; int seed = 0; double deadline_s = 120; double start_time = 0;
    std::string replay;        // non-empty: replay that file
    std::map<std::string, std::string> opt;
    long optl(const char* k, long dflt) const { auto i = opt.find(k); return i == opt.end() ? dflt : atol(i->second.c_str()); }
    bool thorough() const { return tier == "thorough"; }
};
extern Config cfg;

// counters every engine gets; names for the extra ones are set by the engine
enum { NCTR = 24 };
struct Counters { uint64_t cases, calls, nontrivial, compared, extra[NCTR]; };

class Engine {
public:
    virtual ~Engine() {}
    virtual const char* name() = 0;
    // stages in order (bounds iterated); each is enumerated to completion before the next starts
    virtual std::vector<std::string> stages() = 0;
    // enumerate all cases of a stage; call pool_take() before building a case and pool_run(case) to execute it
    virtual void enumerate(const std::string& stage) = 0;
    // execute one case; report through violation(); verbose: print every observation (replay)
    virtual void run_case(const Case& c, bool verbose) = 0;
    virtual std::string describe(const Case& c) { return hex(c.data, c.len > 48 ? 48 : c.len); }
    virtual std::vector<std::string> counter_names() { return {}; }
    virtual void finish(std::map<std::string, std::string>& extra_json) {}
    // called once in every worker process after fork (and before a replay): per-process resources such as guard maps
    virtual void worker_init() {}
    // level-synchronous BFS engines override these (called in the parent between stages)
    virtual void before_stage(const std::string&) {}
    virtual void after_stage(const std::string&) {}
};

bool pool_take();                    // true if the next case index belongs to this worker (and is after the resume point)
void pool_run(const Case& c);        // publishes the case, runs it, counts it
void violation(const std::string& signature, const std::string& message);   // for the case being run
Counters& ctr();
double now_s();
bool deadline_hit();
void worker_emit(const std::string& line);     // append a line to this worker's side file (BFS successor records etc.)
std::vector<std::string> collect_emitted();    // parent: all lines emitted by workers in the last stage
int engine_main(int argc, char** argv, Engine& e);
void note_outcome(uint64_t code);    // distinct observed outcomes (to expose vacuous exploration)

} // namespace vf
