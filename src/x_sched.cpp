// x_sched (C20): preemption-bounded stateless exploration of thread interleavings. The library objects are compiled with
// clang -fsanitize=thread (compile only) and linked against the mini runtime below instead of the TSan runtime: every load/store
// of library code calls back here; accesses to the executable's writable static storage that can conflict between the threads of
// the harness are scheduling points of a cooperative scheduler over real pthreads.
#include "sup.hpp"
#include "sched_programs.hpp"
#include <pthread.h>
#include <stdarg.h>
#include <algorithm>
using namespace vf;

extern "C" char __data_start, _end;

namespace {
struct Access { int tid; uintptr_t addr; uint32_t size; bool write; };
struct Point { int enabled; bool running_enabled; int preempt_before; int chosen; };

const int MAXT = 3;
struct Rt {
    bool logging = false, scheduling = false;
    int n = 0; volatile int turn = -1; bool done[MAXT]; pthread_mutex_t m = PTHREAD_MUTEX_INITIALIZER; pthread_cond_t cv = PTHREAD_COND_INITIALIZER;
    std::vector<int> prefix; size_t ci = 0; std::vector<Point> points; int preemptions = 0;
    std::vector<Access> log; std::set<uintptr_t> rel;   // bytes on which the threads of this harness can conflict
    struct Undo { uintptr_t addr; uint8_t old[16]; uint32_t size; }; std::vector<Undo> undo;
    bool diverged = false; uint64_t npoints_total = 0;
} R;
thread_local int my_tid = -1;

inline bool is_static(uintptr_t a) { return a >= (uintptr_t)&__data_start && a < (uintptr_t)&_end; }

void handoff_locked(int next) { R.turn = next; pthread_cond_broadcast(&R.cv); }
void wait_turn(int me) { pthread_mutex_lock(&R.m); while (R.turn != me) pthread_cond_wait(&R.cv, &R.m); pthread_mutex_unlock(&R.m); }
int choose(const std::vector<int>& enabled, bool running_enabled) {
    int c = 0;
    if (R.ci < R.prefix.size()) { c = R.prefix[R.ci]; if (c >= (int)enabled.size()) { R.diverged = true; c = 0; } }
    R.points.push_back({ (int)enabled.size(), running_enabled, R.preemptions, c }); R.ci++;
    return c;
}
void sched_point() {
    int me = my_tid; std::vector<int> en = { me }; for (int t = 0; t < R.n; t++) if (t != me && !R.done[t]) en.push_back(t);
    if (en.size() == 1) return;
    R.npoints_total++;
    int next = en[choose(en, true)];
    if (next == me) return;
    R.preemptions++;
    pthread_mutex_lock(&R.m); handoff_locked(next); while (R.turn != me) pthread_cond_wait(&R.cv, &R.m); pthread_mutex_unlock(&R.m);
}
void thread_finished() {
    int me = my_tid; pthread_mutex_lock(&R.m); R.done[me] = true;
    std::vector<int> en; for (int t = 0; t < R.n; t++) if (!R.done[t]) en.push_back(t);
    int next = en.empty() ? MAXT : (en.size() == 1 ? en[0] : en[choose(en, false)]);
    handoff_locked(next); pthread_mutex_unlock(&R.m);
}
void on_access(uintptr_t a, uint32_t size, bool write) {
    if (my_tid < 0 || !is_static(a)) return;
    if (R.scheduling) { bool hit = false; for (uint32_t i = 0; i < size && !hit; i++) hit = R.rel.count(a + i) != 0; if (hit) sched_point(); }
    if (write) { Rt::Undo u; u.addr = a; u.size = size > 16 ? 16 : size; memcpy(u.old, (void*)a, u.size); R.undo.push_back(u); }
    if (R.logging) R.log.push_back({ my_tid, a, size, write });
}
} // namespace

extern "C" {
void __tsan_init() {}
void __tsan_func_entry(void*) {}
void __tsan_func_exit() {}
#define RW(n) void __tsan_read##n(void* a) { on_access((uintptr_t)a, n, false); } void __tsan_write##n(void* a) { on_access((uintptr_t)a, n, true); } \
              void __tsan_unaligned_read##n(void* a) { on_access((uintptr_t)a, n, false); } void __tsan_unaligned_write##n(void* a) { on_access((uintptr_t)a, n, true); }
RW(1) RW(2) RW(4) RW(8) RW(16)
void __tsan_read_range(void* a, unsigned long n) { for (unsigned long i = 0; i < n; i += 8) on_access((uintptr_t)a + i, (uint32_t)(n - i < 8 ? n - i : 8), false); }
void __tsan_write_range(void* a, unsigned long n) { for (unsigned long i = 0; i < n; i += 8) on_access((uintptr_t)a + i, (uint32_t)(n - i < 8 ? n - i : 8), true); }
void __tsan_vptr_update(void**, void*) {} void __tsan_vptr_read(void**) {}
// libc calls made by library code with pointers into static storage are shared accesses too
void* __real_memcpy(void*, const void*, size_t); void* __real_memset(void*, int, size_t); char* __real_strcpy(char*, const char*); char* __real_strcat(char*, const char*);
size_t __real_strlen(const char*); int __real_strcmp(const char*, const char*); int __real_strncmp(const char*, const char*, size_t);
static void range(const void* p, size_t n, bool w) { if (my_tid < 0 || !is_static((uintptr_t)p)) return; for (size_t i = 0; i < n; i += 8) on_access((uintptr_t)p + i, (uint32_t)(n - i < 8 ? n - i : 8), w); }
void* __wrap_memcpy(void* d, const void* s, size_t n) { if (my_tid >= 0) { range(s, n, false); range(d, n, true); } return __real_memcpy(d, s, n); }
void* __wrap_memset(void* d, int c, size_t n) { if (my_tid >= 0) range(d, n, true); return __real_memset(d, c, n); }
char* __wrap_strcpy(char* d, const char* s) { if (my_tid >= 0) { size_t n = __real_strlen(s) + 1; range(s, n, false); range(d, n, true); } return __real_strcpy(d, s); }
char* __wrap_strcat(char* d, const char* s) { if (my_tid >= 0) { size_t n = __real_strlen(s) + 1, o = __real_strlen(d); range(s, n, false); range(d + o, n, true); } return __real_strcat(d, s); }
size_t __wrap_strlen(const char* s) { size_t n = __real_strlen(s); if (my_tid >= 0) range(s, n + 1, false); return n; }
int __wrap_strcmp(const char* a, const char* b) { if (my_tid >= 0) { range(a, __real_strlen(a) + 1, false); range(b, __real_strlen(b) + 1, false); } return __real_strcmp(a, b); }
int __wrap_strncmp(const char* a, const char* b, size_t n) { if (my_tid >= 0) { range(a, strnlen(a, n), false); range(b, strnlen(b, n), false); } return __real_strncmp(a, b, n); }
int __wrap_sprintf(char* d, const char* fmt, ...) {
    if (my_tid >= 0 && is_static((uintptr_t)d)) range(d, 32, true);   // scheduling point + undo before the write (length not known yet)
    va_list ap; va_start(ap, fmt); int r = vsprintf(d, fmt, ap); va_end(ap);
    return r;
}
}

namespace {
struct Harness { std::vector<int> progs; };

struct XSched : Engine {
    bool verbose = false; std::vector<Harness> H;
    const char* name() override { return "x_sched"; }
    std::vector<std::string> counter_names() override { return { "schedules", "scheduling_points", "harness_runs", "conflict_locations_excl_error", "sum_over_workers_of_max_points_in_a_schedule", "bound_exhausted_harnesses" }; }
    void build_harnesses() {
        if (!H.empty()) return; int n = (int)progs::all().size();
        for (int i = 0; i < n; i++) for (int j = i; j < n; j++) H.push_back({ { i, j } });
        static const int triples[][3] = { { 0, 1, 1 }, { 1, 1, 1 }, { 0, 3, 8 }, { 1, 8, 9 }, { 2, 4, 7 }, { 8, 8, 8 }, { 3, 3, 3 }, { 5, 6, 9 } };
        for (auto& t : triples) H.push_back({ { t[0], t[1], t[2] } });
    }
    std::vector<std::string> stages() override { if (!cfg.opt.count("hang_s")) cfg.opt["hang_s"] = "1200";   // one case = a whole schedule space
        std::vector<std::string> st = { "bound0", "bound1", "bound2", "bound3", "hooks0", "hooks1" };   /* hooksN: preemption bound N with user-supplied allocation functions installed before the threads start */ if (cfg.thorough()) { st.push_back("bound4"); st.push_back("bound5"); } return st; }
    void enumerate(const std::string& stage) override {
        build_harnesses(); int bound = atoi(stage.c_str() + 5); bool hooks = stage.compare(0, 5, "hooks") == 0;
        for (size_t h = 0; h < H.size(); h++) { if (H[h].progs.size() == 3 && (hooks || bound > (cfg.thorough() ? 3 : 2))) continue; if (!pool_take()) continue; static Case c; c.kind = 0; c.iv[1] = (int64_t)h; c.iv[2] = bound; c.iv[3] = hooks; c.len = 0; pool_run(c); }
    }

    // ---- one controlled execution
    struct Run { std::vector<std::string> results; std::vector<Point> points; std::vector<Access> log; bool diverged; };
    struct TArg { int tid; progs::Prog fn; std::string* out; bool controlled; };
    static void* body(void* p) {
        TArg* a = (TArg*)p;
        if (a->controlled) wait_turn(a->tid);
        my_tid = a->tid;
        *a->out = a->fn(a->tid);
        my_tid = -1;
        if (a->controlled) { my_tid = a->tid; thread_finished(); my_tid = -1; }
        return nullptr;
    }
    Run execute(const Harness& h, const std::vector<int>& prefix, bool scheduling) {
        Run r; int n = (int)h.progs.size(); r.results.resize(n);
        R.n = n; R.prefix = prefix; R.ci = 0; R.points.clear(); R.preemptions = 0; R.log.clear(); R.undo.clear(); R.diverged = false; R.logging = true; R.scheduling = scheduling; R.turn = -1;
        for (int t = 0; t < MAXT; t++) R.done[t] = t >= n;
        std::vector<TArg> args(n); pthread_t th[MAXT];
        for (int t = 0; t < n; t++) { args[t] = { t, progs::all()[h.progs[t]].fn, &r.results[t], true }; pthread_create(&th[t], nullptr, body, &args[t]); }
        // which thread starts is a choice as well (costs no preemption)
        { std::vector<int> en; for (int t = 0; t < n; t++) en.push_back(t); int first = en[n == 1 ? 0 : choose(en, false)]; pthread_mutex_lock(&R.m); handoff_locked(first); pthread_mutex_unlock(&R.m); }
        for (int t = 0; t < n; t++) pthread_join(th[t], nullptr);
        R.logging = false; R.scheduling = false;
        // roll the library's static storage back so that every schedule starts from the same global state
        for (size_t i = R.undo.size(); i-- > 0;) memcpy((void*)R.undo[i].addr, R.undo[i].old, R.undo[i].size);
        r.points = R.points; r.log = R.log; r.diverged = R.diverged; return r;
    }
    std::string solo(int prog, int slot, std::vector<Access>* log) {
        std::string out; R.n = 1; R.logging = true; R.scheduling = false; R.log.clear(); R.undo.clear();
        TArg a{ slot, progs::all()[prog].fn, &out, false }; pthread_t th; pthread_create(&th, nullptr, body, &a); pthread_join(th, nullptr);
        R.logging = false; for (size_t i = R.undo.size(); i-- > 0;) memcpy((void*)R.undo[i].addr, R.undo[i].old, R.undo[i].size);
        if (log) *log = R.log; return out;
    }

    static void* user_malloc(size_t n) { return malloc(n); }
    static void user_free(void* p) { free(p); }
    void run_case(const Case& c, bool vb) override {
        verbose = vb; build_harnesses(); size_t hi = (size_t)c.iv[1]; if (hi >= H.size()) return; const Harness& h = H[hi]; int bound = (int)c.iv[2]; int n = (int)h.progs.size();
        std::string hname = describe(c);
        struct HookScope { bool on; HookScope(bool o) : on(o) { if (on) { cJSON_Hooks hk = { user_malloc, user_free }; cJSON_InitHooks(&hk); } } ~HookScope() { if (on) cJSON_InitHooks(nullptr); } } hookscope(c.iv[3] != 0);
        // phase 1: solo runs (reference observations, static access sets), error location
        std::set<uintptr_t> E; { R.logging = true; R.log.clear(); my_tid = 0; (void)cJSON_GetErrorPtr(); my_tid = -1; R.logging = false; for (auto& a : R.log) for (uint32_t i = 0; i < a.size; i++) E.insert(a.addr + i); }
        std::vector<std::string> ref(n); std::vector<std::map<uintptr_t, int>> acc(n);   // byte -> 1 read, 2 write
        for (int t = 0; t < n; t++) { std::vector<Access> lg; ref[t] = solo(h.progs[t], t, &lg); std::string again = solo(h.progs[t], t, nullptr); if (again != ref[t]) { violation("harness:solo-nondeterministic", "solo run of " + std::string(progs::all()[h.progs[t]].name) + " is not deterministic"); return; }
            for (auto& a : lg) for (uint32_t i = 0; i < a.size; i++) acc[t][a.addr + i] |= a.write ? 2 : 1; }
        R.rel.clear();
        for (int t = 0; t < n; t++) for (auto& kv : acc[t]) if (kv.second & 2) for (int u = 0; u < n; u++) if (u != t && acc[u].count(kv.first)) R.rel.insert(kv.first);
        for (auto e : E) R.rel.insert(e);
        // static conflict check on the access sets (no happens-before exists inside the library: every such pair is a race)
        std::set<uintptr_t> conflicts; for (auto a : R.rel) if (!E.count(a)) conflicts.insert(a);
        if (!conflicts.empty()) { char b[64]; snprintf(b, sizeof b, "%zu byte(s), first at static offset 0x%lx", conflicts.size(), (unsigned long)(*conflicts.begin() - (uintptr_t)&__data_start)); violation("sched:conflicting-static-access", hname + ": threads working on private data access the same static storage with at least one write (" + b + ")"); ctr().extra[3] += conflicts.size(); }
        // phase 2: DFS over schedules, bounded by preemptions
        // a harness that already shows a conflicting static access is a violation; its (then much larger) schedule space is only sampled up to a small cap
        uint64_t schedules = 0, maxpts = 0; const uint64_t cap = conflicts.empty() ? (uint64_t)cfg.optl("max_schedules", 150000) : 3000; bool capped = false; int reported = 0;
        std::set<std::string> outcomes;
        std::function<void(const std::vector<int>&)> explore = [&](const std::vector<int>& prefix) {
            if (schedules >= cap) { capped = true; return; }
            Run x = execute(h, prefix, true); schedules++; ctr().extra[0]++; ctr().calls += n; if (x.points.size() > maxpts) maxpts = x.points.size();
            if (x.diverged) { violation("harness:replay-diverged", hname + ": a schedule prefix could not be replayed (nondeterminism not captured)"); return; }
            std::string oc; for (int t = 0; t < n; t++) { oc += x.results[t]; oc += '\x1e'; } outcomes.insert(oc);
            std::string sched; for (auto& p : x.points) sched += std::to_string(p.chosen);
            for (int t = 0; t < n; t++) if (x.results[t] != ref[t] && reported < 3) { reported++; violation("sched:result-differs-from-solo", hname + ": thread " + std::to_string(t) + " (" + progs::all()[h.progs[t]].name + ") got \"" + printable(x.results[t].substr(0, 160)) + "\" but alone it gets \"" + printable(ref[t].substr(0, 160)) + "\" under schedule choices [" + sched + "]"); }
            // accesses outside the solo sets would make the reduction unsound: check
            for (auto& a : x.log) { bool known = false; for (uint32_t i = 0; i < a.size; i++) if (acc[a.tid].count(a.addr + i)) known = true; if (!known && reported < 3) { reported++; violation("sched:schedule-dependent-static-access", hname + ": a thread touched static storage it never touches when running alone"); } }
            if (vb && schedules <= 40) printf("  schedule [%s] points=%zu\n", sched.c_str(), x.points.size());
            for (size_t i = prefix.size(); i < x.points.size(); i++) {
                int cost = x.points[i].preempt_before + (x.points[i].running_enabled ? 1 : 0);
                if (cost > bound) continue;
                for (int alt = 1; alt < x.points[i].enabled; alt++) { std::vector<int> p2; for (size_t k = 0; k < i; k++) p2.push_back(x.points[k].chosen); p2.push_back(alt); explore(p2); }
            }
        };
        explore({});
        ctr().extra[2]++; ctr().extra[1] += R.npoints_total; R.npoints_total = 0; if (maxpts > ctr().extra[4]) ctr().extra[4] = maxpts; if (!capped) ctr().extra[5]++;
        ctr().compared += schedules; if (schedules > 1) ctr().nontrivial++;
        note_outcome(outcomes.size() | (uint64_t)hi << 8);
        if (capped && conflicts.empty()) violation("harness:schedule-cap", hname + ": schedule cap reached at bound " + std::to_string(bound) + " (not exhaustive)");
        if (vb) printf("  %s bound=%d schedules=%llu max points=%llu distinct outcome vectors=%zu relevant static bytes=%zu\n", hname.c_str(), bound, (unsigned long long)schedules, (unsigned long long)maxpts, outcomes.size(), R.rel.size());
    }
    std::string describe(const Case& c) override { build_harnesses(); size_t hi = (size_t)c.iv[1]; if (hi >= H.size()) return "?"; std::string s = c.iv[3] ? "custom-hooks threads{" : "threads{"; for (size_t t = 0; t < H[hi].progs.size(); t++) { if (t) s += " || "; s += progs::all()[H[hi].progs[t]].name; } return s + "} preemption bound " + std::to_string(c.iv[2]); }
    void finish(std::map<std::string, std::string>& x) override {
        x["rule"] = jstr("one case = one multi-threaded harness (all unordered pairs of the 12 thread programs + 8 triples) at one preemption bound; all schedules with at most that many preemptions are executed (scheduling points = accesses, incl. through wrapped libc calls, to static bytes that one thread writes and another touches, plus the error location); "
                         "per schedule every thread's observation must equal its solo observation; non-trivial = harnesses with more than one schedule");
    }
};
} // namespace
int main(int argc, char** argv) { XSched e; return engine_main(argc, argv, e); }
