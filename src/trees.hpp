// Exhaustive enumeration of reference trees up to a node bound over small leaf/key alphabets.
#pragma once
#include "sup.hpp"
#include <map>

namespace vf {

struct TreeAlphabet {
    std::vector<RV> leaves;
    std::vector<std::string> keys;
    int max_arity = 3;
    int max_depth = 4;
    bool dup_keys = false;       // allow the same key twice in one object
    bool arrays = true, objects = true;
};

namespace detail {
struct TreeGen {
    const TreeAlphabet& al;
    std::map<std::pair<int, int>, std::vector<RV>> memo;
    explicit TreeGen(const TreeAlphabet& a) : al(a) {}
    // all ordered sequences of `cnt` trees with exactly `nodes` nodes in total, each of depth <= d
    void seqs(int cnt, int nodes, int d, std::vector<RV>& cur, std::vector<std::vector<RV>>& out) {
        if (cnt == 0) { if (nodes == 0) out.push_back(cur); return; }
        for (int k = 1; k <= nodes - (cnt - 1); k++) {
            const std::vector<RV>& ts = exact(k, d);
            for (auto& t : ts) { cur.push_back(t); seqs(cnt - 1, nodes - k, d, cur, out); cur.pop_back(); }
        }
    }
    void keyseqs(int cnt, std::vector<int>& cur, std::vector<std::vector<int>>& out) {
        if ((int)cur.size() == cnt) { out.push_back(cur); return; }
        for (int k = 0; k < (int)al.keys.size(); k++) {
            if (!al.dup_keys) { bool used = false; for (int u : cur) if (u == k) used = true; if (used) continue; }
            cur.push_back(k); keyseqs(cnt, cur, out); cur.pop_back();
        }
    }
    const std::vector<RV>& exact(int nodes, int depth) {
        auto key = std::make_pair(nodes, depth);
        auto it = memo.find(key); if (it != memo.end()) return it->second;
        std::vector<RV> res;
        if (nodes == 1) {
            for (auto& l : al.leaves) res.push_back(l);
            if (depth >= 1) { if (al.arrays) res.push_back(RV::mk(RV::Arr)); if (al.objects) res.push_back(RV::mk(RV::Obj)); }
        } else if (depth >= 1) {
            for (int ar = 1; ar <= al.max_arity && ar <= nodes - 1; ar++) {
                std::vector<std::vector<RV>> ss; std::vector<RV> cur; seqs(ar, nodes - 1, depth - 1, cur, ss);
                if (al.arrays) for (auto& s : ss) { RV a = RV::mk(RV::Arr); a.arr = s; res.push_back(a); }
                if (al.objects) {
                    std::vector<std::vector<int>> ks; std::vector<int> kc; keyseqs(ar, kc, ks);
                    for (auto& s : ss) for (auto& kk : ks) { RV o = RV::mk(RV::Obj); for (int i = 0; i < ar; i++) o.obj.emplace_back(al.keys[kk[i]], s[i]); res.push_back(o); }
                }
            }
        }
        return memo[key] = res;
    }
};
}

// all trees with at most n nodes (a container counts as one node), shallow first
inline std::vector<RV> enumerate_trees(const TreeAlphabet& al, int n) {
    detail::TreeGen g(al); std::vector<RV> out;
    for (int k = 1; k <= n; k++) { const std::vector<RV>& e = g.exact(k, al.max_depth); out.insert(out.end(), e.begin(), e.end()); }
    return out;
}

namespace detail {
inline void txt_str(const std::string& s, std::string& o) {
    o += '"'; char b[8];
    for (unsigned char c : s) { if (c == '"') o += "\\\""; else if (c == '\\') o += "\\\\"; else if (c < 0x20) { snprintf(b, sizeof b, "\\u%04x", c); o += b; } else o += (char)c; }
    o += '"';
}
inline void txt_gap(const RV& v, const std::string& g, std::string& o) {
    char b[40];
    switch (v.k) {
        case RV::Null: o += "null"; break; case RV::False: o += "false"; break; case RV::True: o += "true"; break;
        case RV::Num: snprintf(b, sizeof b, "%.17g", v.num); o += b; break;
        case RV::Str: txt_str(v.str, o); break; case RV::Raw: o += v.str; break;
        case RV::Arr: o += '['; o += g; for (size_t i = 0; i < v.arr.size(); i++) { if (i) { o += ','; o += g; } txt_gap(v.arr[i], g, o); o += g; } o += ']'; break;
        case RV::Obj: o += '{'; o += g; for (size_t i = 0; i < v.obj.size(); i++) { if (i) { o += ','; o += g; } txt_str(v.obj[i].first, o); o += g; o += ':'; o += g; txt_gap(v.obj[i].second, g, o); o += g; } o += '}'; break;
    }
}
}
// strict JSON text with `gap` inserted at every position where whitespace is allowed
inline std::string rv_text_gaps(const RV& v, const std::string& gap) { std::string o = gap; detail::txt_gap(v, gap, o); o += gap; return o; }

} // namespace vf
