// x_parse: bounded exhaustive exploration of the four parse entry points (C01 safety, C02 decode,
// C03 reject, C10 end/error position). Every enumerated input is run through all entry points on
// exact-size read-only buffers flush against guard pages and compared with the S / L reference recognisers.
#include "sup.hpp"
#include "trees.hpp"
#include <math.h>
#include <dirent.h>
using namespace vf;

namespace {

enum { K_BYTES = 0, K_NEST = 1, K_FAULT = 2, K_REUSE = 3 };
enum Mode { M_SAFETY, M_DECODE, M_REJECT, M_ENDPTR };

const uint8_t SIGMA_B[] = { '[', ']', '{', '}', ',', ':', '"', '\\', '/', 'u', 'D', '8', 'C', '0', '1', '9', '-', '+', '.', 'e', 'E',
                            'a', 't', 'r', 'n', 'l', ' ', 0x00, 0xEF, 0xBB, 0xBF, 0x1F, 0x80 };
const char* SIGMA_T[] = { "[", "]", "{", "}", ",", ":", "\"a\"", "\"b\"", "1", "-2.5e1", "true", "false", "null", " ", "\n", "0" };
const char* PIECES[] = { "a", "\\\"", "\\\\", "\\/", "\\b", "\\n", "\\u0041", "\\u00e9", "\\u20AC", "\\uD83D\\uDE00", "\\uD83D", "\\uDE00",
                         "\\uD83D\\u0041", "\\u00G1", "\\u12", "\\u", "\\", "\\x", "\x01", "\x1f", "\xc3\xa9", "\xc3", "\xff", "\\u0000",
                         "\"", "\\uDBFF\\uDFFF", "\\ud800\\udc00", "\xf0\x9f\x98\x80", "\xed\xa0\x80",
                         "\\u\x80\x80\x80\x80", "\\u00\xc3\xa9", "\\uD83D\\u\xff\xfe\x80\xbf", "\\u\xe9" "041", "\\u004\xb1",
                         // raw UTF-8 of the last plane and of noncharacters (valid in JSON), control bytes where hex digits belong (0x10..0x19 become '0'..'9' when bit 0x20 is set)
                         "\xf4\x8f\xbf\xbf", "\xf4\x80\x80\x80", "\xef\xbf\xbe", "\\uFFFE", "\\u00\x14" "1", "\\u\x10\x11\x12\x13" };
const int NPIECES = sizeof PIECES / sizeof *PIECES;

std::string nest_bytes(int family, long d) {
    std::string s;
    switch (family) {
        case 0: s.assign((size_t)d, '['); break;
        case 1: s.assign((size_t)d, '['); s.append((size_t)d, ']'); break;
        case 2: for (long i = 0; i < d; i++) s += "{\"a\":"; break;
        case 3: for (long i = 0; i < d; i++) s += "{\"a\":"; s += "1"; s.append((size_t)d, '}'); break;
        case 4: for (long i = 0; i < d; i++) s += (i & 1) ? "{\"a\":" : "["; s += "null"; for (long i = d - 1; i >= 0; i--) s += (i & 1) ? "}" : "]"; break;
        case 5: for (long i = 0; i < d; i++) s += "[1,"; break;
        case 6: for (long i = 0; i < d; i++) s += "[ "; for (long i = 0; i < d; i++) s += " ]"; break;
        // wide (not deep) shapes: d siblings, each opening and closing a container -- depth accounting must be balanced
        case 7: s = "["; for (long i = 0; i < d; i++) { if (i) s += ","; s += "[]"; } s += "]"; break;
        case 8: s = "["; for (long i = 0; i < d; i++) { if (i) s += ","; s += "{}"; } s += "]"; break;
        case 9: s = "["; for (long i = 0; i < d; i++) { if (i) s += ","; s += "[1]"; } s += "]"; break;
        case 10: s = "{"; for (long i = 0; i < d; i++) { if (i) s += ","; s += "\"a\":{\"b\":2}"; } s += "}"; break;
        case 11: s = "["; for (long i = 0; i < d; i++) { if (i) s += ","; s += "[[],{}]"; } s += "]"; break;
        case 12: s = "{"; for (long i = 0; i < d; i++) { if (i) s += ","; s += "\"k\":[]"; } s += "}"; break;
        // nesting that runs through a later element / member of every level (depth must be counted there as well)
        case 13: for (long i = 0; i < d; i++) s += "[0,"; s += "1"; s.append((size_t)d, ']'); break;
        case 14: for (long i = 0; i < d; i++) s += "{\"a\":0,\"b\":"; s += "1"; s.append((size_t)d, '}'); break;
        case 15: for (long i = 0; i < d; i++) s += (i & 1) ? "{\"x\":[],\"y\":" : "[{},"; s += "null"; for (long i = d - 1; i >= 0; i--) s += (i & 1) ? "}" : "]"; break;
        // every level first holds an empty container (or two) and then nests: an empty container must leave the depth count where it was
        case 16: for (long i = 0; i < d; i++) s += "[[],"; s += "1"; s.append((size_t)d, ']'); break;
        case 17: for (long i = 0; i < d; i++) s += "{\"a\":{},\"b\":"; s += "1"; s.append((size_t)d, '}'); break;
        case 18: for (long i = 0; i < d; i++) s += "[{},[],"; s += "1"; s.append((size_t)d, ']'); break;
        case 19: for (long i = 0; i < d; i++) s += "{\"a\":[],\"b\":{},\"c\":"; s += "1"; s.append((size_t)d, '}'); break;
    }
    return s;
}

struct XParse : Engine {
    GuardMap gm; Mode mode = M_SAFETY; bool verbose = false;
    std::vector<std::string> seeds;
    const char* name() override { return "x_parse"; }
    std::vector<std::string> counter_names() override { return { "lib_accepts", "S_accepts", "L_rejects", "L_unknown", "trees_walked", "prefix_reparses", "string_entry_inputs", "refused_requests" }; }

    void worker_init() override { init(); gm.create(1 << 20); }
    void init() {
        if (cfg.prop == "C02") mode = M_DECODE; else if (cfg.prop == "C03") mode = M_REJECT; else if (cfg.prop == "C10") mode = M_ENDPTR; else mode = M_SAFETY;
    }
    std::vector<std::string> stages() override {
        init();
        bool T = cfg.thorough();
        std::vector<std::string> st;
        long kb = cfg.optl("bytes", T ? 5 : 4), mt = cfg.optl("tokens", T ? 6 : 5), pc = cfg.optl("pieces", T ? 4 : 3);
        for (long k = 0; k <= kb; k++) st.push_back("bytes" + std::to_string(k));
        st.push_back("shortcuts");
        for (long m = 1; m <= mt; m++) st.push_back("tokens" + std::to_string(m));
        for (long p = 0; p <= pc; p++) st.push_back("pieces" + std::to_string(p));
        st.push_back("nest");
        if (mode == M_DECODE || mode == M_SAFETY) { st.push_back("u16"); st.push_back("surrogates"); st.push_back("numbers"); st.push_back("digits"); st.push_back("trees"); }
        if (mode != M_DECODE) { st.push_back("nearmiss"); st.push_back("edits"); st.push_back("faults"); st.push_back("reuse"); }
        st.push_back("hooked");
        return st;
    }

    // ---------------------------------------------------------------- enumeration
    int hooked = 0;
    void emit(const std::string& s) { if (!pool_take()) return; static Case c; c.kind = K_BYTES; c.iv[5] = hooked; c.set(s); if (s.size() > sizeof c.data) return; pool_run(c); }
    void enumerate(const std::string& stage) override {
        init();
        if (stage.compare(0, 5, "bytes") == 0) {
            int k = atoi(stage.c_str() + 5); const int A = sizeof SIGMA_B;
            std::vector<int> od(k, 0); std::string s((size_t)k, 0);
            for (;;) {
                if (pool_take()) { for (int i = 0; i < k; i++) s[i] = (char)SIGMA_B[od[i]]; static Case c; c.kind = K_BYTES; c.iv[5] = hooked; c.set(s); pool_run(c); }
                int i = k - 1; while (i >= 0 && ++od[i] == A) od[i--] = 0;
                if (i < 0) break;
            }
        } else if (stage.compare(0, 6, "tokens") == 0) {
            int m = atoi(stage.c_str() + 6); const int A = sizeof SIGMA_T / sizeof *SIGMA_T;
            std::vector<int> od(m, 0);
            for (;;) {
                if (pool_take()) { std::string s; for (int i = 0; i < m; i++) s += SIGMA_T[od[i]]; static Case c; c.kind = K_BYTES; c.iv[5] = hooked; c.set(s); pool_run(c); }
                int i = m - 1; while (i >= 0 && ++od[i] == A) od[i--] = 0;
                if (i < 0) break;
            }
        } else if (stage.compare(0, 6, "pieces") == 0) {
            int m = atoi(stage.c_str() + 6);
            std::vector<int> od(m, 0);
            static const char* pre[] = { "", "[", "{", "{\"k\":", "[1,", " " };
            static const char* post[] = { "", "]", ":1}", "}", "]", " " };
            for (;;) {
                std::string body; for (int i = 0; i < m; i++) body += PIECES[od[i]];
                for (int ctx = 0; ctx < 6; ctx++) for (int closed = 0; closed < 2; closed++) {
                    if (!pool_take()) continue;
                    std::string s = std::string(pre[ctx]) + "\"" + body + (closed ? "\"" : "") + (closed ? post[ctx] : "");
                    static Case c; c.kind = K_BYTES; c.iv[5] = hooked; c.set(s); pool_run(c);
                }
                int i = m - 1; while (i >= 0 && ++od[i] == NPIECES) od[i--] = 0;
                if (i < 0) break;
            }
        } else if (stage == "shortcuts") {
            // number tokens around the 63-character copy limit
            std::vector<int> numlens; for (int len = 1; len <= 130; len++) numlens.push_back(len); numlens.push_back(200); numlens.push_back(300);
            for (int len : numlens) for (int form = 0; form < 8; form++) {
                std::string s;
                switch (form) {
                    case 0: s.assign(len, '1'); break;
                    case 1: s = "-" + std::string(len > 1 ? len - 1 : 0, '9'); break;
                    case 2: s = "1." + std::string(len > 2 ? len - 2 : 0, '3'); break;
                    case 3: s = "0." + std::string(len > 3 ? len - 3 : 0, '0') + "1"; break;
                    case 4: s = "1e" + std::string(len > 2 ? len - 2 : 0, '0'); if (len > 2) s[s.size() - 1] = '5'; break;
                    case 5: s = std::string(len > 4 ? len - 4 : 0, '7') + "e-10"; break;
                    case 6: s = "[" + std::string(len, '4') + "]"; break;
                    case 7: s = std::string(len, '8') + " "; break;
                }
                emit(s);
            }
            // long runs of number characters that contain no convertible number (must be rejected without leaving anything behind)
            for (int len : { 5, 62, 63, 64, 65, 70, 130 }) for (const char* pre : { "--", "-e", "-.e", "-+", "-.", "-E-" }) for (int ctx = 0; ctx < 3; ctx++) { std::string b = std::string(pre) + std::string((size_t)len, '7'); emit(ctx == 0 ? b : ctx == 1 ? "[" + b + "]" : "{\"k\":" + b + "}"); }
            // string literals (as value and as member name) of every decoded length 0..300 and around 512 / 1024 / 4096: plain, ending in an escape, made of escapes only,
            // and the same cut off before the closing quote / inside the final escape
            { std::vector<int> lad; for (int i = 0; i <= 300; i++) lad.push_back(i); for (int i : { 511, 512, 513, 1023, 1024, 1025, 4095, 4096, 4097 }) lad.push_back(i);
              static const char* tails[] = { "", "\\n", "\\u00e9", "\\uD83D\\uDE00", "\\\"", "\xc3\xa9" };
              for (int L : lad) { if (!pool_take()) continue; for (auto tl : tails) for (int body = 0; body < 2; body++) { if (body && L > 1100) continue;
                  std::string lit = "\""; if (body == 0) lit += std::string((size_t)L, 'p'); else for (int i = 0; i < L; i++) lit += (i % 3 == 0) ? "\\t" : (i % 3 == 1) ? "\\u0041" : "q";
                  lit += tl; std::string full = lit + "\"";
                  emit_now(full); emit_now("[" + full + "]"); emit_now("{" + full + ":" + full + "}"); emit_now(lit); emit_now("[1," + lit); if (tl[0]) emit_now(full.substr(0, full.size() - 2)); } } }
            // k malformed / truncated escapes behind a plain prefix of every length 0..24 (size estimates that trust an escape before it has been validated)
            { static const char* bad[] = { "\\u", "\\u1", "\\u12", "\\u123", "\\uZZZZ", "\\x", "\\uD83D", "\\uDE00" };
              for (int pre = 0; pre <= 24; pre++) { if (!pool_take()) continue; for (auto b : bad) for (int k = 1; k <= 6; k++) for (int tail = 0; tail < 3; tail++) {
                  std::string lit = "\"" + std::string((size_t)pre, 'p'); for (int i = 0; i < k; i++) lit += b; if (tail == 1) lit += "q"; if (tail != 2) lit += "\""; emit_now(lit); emit_now("{" + lit + (tail == 2 ? "" : ":1}")); } } }
            // a long well-formed number followed by every tail of up to 4 number characters (whatever is done with the part that does not fit a
            // fixed-size scratch buffer, the whole token still has to be a JSON number)
            { static const char TA[] = { '-', '+', '.', 'e', 'E', '5' };
              for (int len : { 61, 62, 63, 64, 65, 70, 130 }) for (int form = 0; form < 5; form++) {
                std::string h; switch (form) { case 0: h.assign((size_t)len, '1'); break; case 1: h = "0." + std::string((size_t)len - 2, '3'); break; case 2: h = "-12." + std::string((size_t)len - 4, '9'); break; case 3: h = std::string((size_t)len - 3, '7') + "e-1"; break; default: h = "1." + std::string((size_t)len - 5, '0') + "5E+"; break; }
                if (!pool_take()) continue;
                for (int tl = 1; tl <= 4; tl++) { std::vector<int> od((size_t)tl, 0); for (;;) { std::string t; for (int i = 0; i < tl; i++) t += TA[od[(size_t)i]]; emit_now("[" + h + t + "]"); if (tl <= 2) { emit_now(h + t); emit_now("{\"a\":" + h + t + ",\"b\":1}"); } int i = tl - 1; while (i >= 0 && ++od[(size_t)i] == (int)sizeof TA) od[(size_t)i--] = 0; if (i < 0) break; } }
              } }
            // literals that overflow / underflow in strtod (they set errno = ERANGE; nothing may depend on that later)
            for (const char* v : { "1e999", "-1e999", "[1e400]", "1e-999", "[2.5e-310]", "{\"n\":4.9406564584124654e-324}", "123456789e300", "0.1e-320" }) { emit(v); emit(std::string(v) + " "); emit("[1,2.5,\"after\"]"); }
            // BOM followed by 0..2 alphabet bytes, doubled BOM, BOM inside
            const std::string bom = "\xEF\xBB\xBF"; const int A = sizeof SIGMA_B;
            emit(bom); emit(bom + bom + "1"); emit("1" + bom); emit(" " + bom + "1"); emit(bom + "\"" + bom + "\""); emit(bom.substr(0, 1)); emit(bom.substr(0, 2));
            for (int a = 0; a < A; a++) { emit(bom + std::string(1, (char)SIGMA_B[a])); for (int b = 0; b < A; b++) emit(bom + std::string(1, (char)SIGMA_B[a]) + std::string(1, (char)SIGMA_B[b])); }
            for (const char* v : { "1", "[]", "{}", "true", "null", "\"a\"", " 1 ", "[1]", "false" }) { emit(bom + v); emit(bom + v + std::string(1, '\0')); emit(bom + " " + v); }
            // every single byte value, alone / inside a string / after a value
            for (int b = 0; b < 256; b++) { std::string x(1, (char)b); emit(x); emit("\"" + x + "\""); emit("1" + x); emit("[1" + x + "]"); emit(x + "1"); emit("\"\\" + x + "\""); emit("{\"" + x + "\":0}"); }
        } else if (stage == "nest") {
            const long lim = CJSON_NESTING_LIMIT;
            for (int fam = 0; fam < 20; fam++) for (long d : { 1L, 2L, 3L, 4L, 50L, lim - 1, lim, lim + 1, lim + 2, 2 * lim, 100000L }) {
                if (fam >= 7 && fam <= 12 && d == 100000L) d = 5 * lim + 3; if (fam >= 13 && d == 100000L) d = 30000L;
                if (!pool_take()) continue;
                static Case c; c.kind = K_NEST; c.iv[1] = fam; c.iv[2] = d; c.len = 0; pool_run(c);
            }
        } else if (stage == "u16") {
            for (int up = 0; up < 2; up++) for (unsigned u = 0; u < 0x10000; u++) for (int ctx = 0; ctx < 2; ctx++) {
                if (!pool_take()) continue;
                char b[16]; snprintf(b, sizeof b, up ? "\\u%04X" : "\\u%04x", u);
                emit_now(ctx ? std::string("{\"") + b + "\":0}" : std::string("\"") + b + "\"");
            }
        } else if (stage == "surrogates") {
            bool T = cfg.thorough();
            for (unsigned hi = 0xD800; hi < 0xDC00; hi++) for (unsigned lo = 0xDC00; lo < 0xE000; lo++) {
                if (!T && !((lo & 0x3F) == 0 || (lo & 0x3F) == 0x3F || (hi & 0x3F) == 0 || (hi & 0x3F) == 0x3F || hi == lo - 0x400)) continue;
                if (!pool_take()) continue;
                char b[32]; snprintf(b, sizeof b, ((hi ^ lo) & 1) ? "\\u%04X\\u%04x" : "\\u%04x\\u%04X", hi, lo);
                emit_now(((hi + lo) & 7) == 0 ? std::string("{\"") + b + "\":0}" : std::string("\"x") + b + "y\"");
            }
        } else if (stage == "numbers") {
            static const char* ints[] = { "0", "1", "9", "10", "42", "2147483646", "2147483647", "2147483648", "2147483649", "4294967296", "9007199254740992", "9007199254740993",
                                          "12345678901234567890", "99999999999999999999", "179769313486231570000", "123456789012345678" };
            static const char* fracs[] = { "", ".0", ".5", ".25", ".1", ".000001", ".999999999999999999", ".123456789012345678", ".00000000000000000001" };
            static const char* exps[] = { "", "e0", "E0", "e1", "e+1", "e-1", "E+10", "e22", "e23", "e-22", "e100", "e300", "e307", "e308", "e309", "e400", "e-300", "e-307", "e-308", "e-320", "e-323", "e-324", "e-325", "e-400", "e0000000001", "E-0" };
            for (auto ip : ints) for (auto fp : fracs) for (auto ep : exps) for (int neg = 0; neg < 2; neg++) for (int ctx = 0; ctx < 3; ctx++) {
                if (!pool_take()) continue;
                std::string lit = std::string(neg ? "-" : "") + ip + fp + ep;
                emit_now(ctx == 0 ? lit : ctx == 1 ? "[" + lit + "]" : "{\"n\":" + lit + "}");
            }
        } else if (stage == "digits") {
            // every 4-digit mantissa x a range of exponents, and a ladder of 15..19-digit integers (no "round" values)
            static const int exps[] = { -30, -5, -4, -3, -2, -1, 0, 1, 2, 3, 4, 5, 12, 13, 14, 15, 16, 17, 18, 22, 23, 290 };
            for (int m = 0; m < 10000; m++) for (int e : exps) { if (!pool_take()) continue; char b[48]; snprintf(b, sizeof b, "%d.%03de%d", m / 1000, m % 1000, e); emit_now(b); }
            for (int digits = 15; digits <= 19; digits++) for (unsigned long long k = 1; k <= 2000; k++) {
                if (!pool_take()) continue;
                unsigned long long lo = 1; for (int i = 1; i < digits; i++) lo *= 10; unsigned long long v = lo + (lo / 2003) * k + k * k; char b[48]; snprintf(b, sizeof b, "%llu", v); emit_now(k % 3 == 0 ? std::string("-") + b : k % 3 == 1 ? std::string("[") + b + "]" : std::string(b));
            }
            for (unsigned long long k = 0; k < 4096; k++) { if (!pool_take()) continue; char b[48]; snprintf(b, sizeof b, "%llu", (1ull << 53) - 2048 + k); emit_now(b); snprintf(b, sizeof b, "%llu", (1ull << 54) - 2048 + k * 2 + 1); emit_now(b); snprintf(b, sizeof b, "%llu", (1ull << 63) - 4096 + k * 2 + 1); emit_now(b); }
        } else if (stage == "trees") {
            TreeAlphabet al; al.leaves = { RV::mk(RV::Null), RV::mk(RV::True), RV::mk(RV::False), RV::number(1), RV::string("s") }; al.keys = { "a", "b" }; al.max_arity = 3; al.max_depth = 4; al.dup_keys = true;
            int n = (int)cfg.optl("tree_nodes", cfg.thorough() ? 5 : 4);
            std::vector<RV> trees = enumerate_trees(al, n);
            static const char* gaps[] = { "", " ", "\t\r\n " };
            for (auto& t : trees) for (int g = 0; g < 3; g++) for (int v = 0; v < 3; v++) {
                if (!pool_take()) continue;
                std::string s = rv_text_gaps(t, gaps[g]);
                if (v == 1) s = "\xEF\xBB\xBF" + s; else if (v == 2) s += std::string(1, '\0');
                emit_now(s);
            }
        } else if (stage == "nearmiss") {
            static const char* vals[] = { "nul", "tru", "fals", "True", "NULL", "nulll", "truee", "Null", "FALSE", "-", "-.", ".5", "+1", "-e", "0x10", "1.2.3", "--1", "Infinity", "NaN", "-inf", "-Infinity", "1_0", "'a'", "a",
                                          "-a", "e5", "1e", "1e+", "-.5", "01", "1.", "1.e3", "00", "-0", "-00", "1E", "\"a", "a\"", "\"\\\"", "[", "]", "{", "}", ",", ":", "[,]", "[1,]", "[,1]", "{,}", "{\"a\"}", "{\"a\":}",
                                          "{:1}", "{\"a\":1,}", "{,\"a\":1}", "{1:1}", "{a:1}", "{\"a\" 1}", "{\"a\"::1}", "[1 2]", "[1:2]", "{\"a\":1 \"b\":2}", "{\"a\":1:2}", "[1]]", "{}}", "[}", "{]", "[1}", "{\"a\":1]", "\\u0041", "nan", "inf", "tRue", "\"\\u00\"", "\"\\uD800\"", "\"\\uDC00\\uD800\"", "\"\\uZZZZ\"", "\"\\u00G1\"", "\"\\u 041\"", "\"\\u-123\"", "\"\\u+123\"", "\"\\u0x41\"", "\"\\U0041\"", "\"\\a\"", "\"\\'\"", "\"\\0\"", "\"\\\n\"", "\"\\uD800\\n\"", "\"\\uD800\\uD800\"", "\"\\uD800\\u0041\"", "\"\\uD800\\uE000\"", "\"\\uD800\\uDBFF\"" };
            static const char* ctxs[] = { "%s", "[%s]", "[1,%s]", "[%s,1]", "{\"a\":%s}", "{%s:1}", "{\"a\" %s}", " %s ", "[[%s]]", "{\"a\":1,%s}", "{\"a\":1,\"b\":%s}", "%s ", "[1,%s", "{\"a\":[%s]}" };
            for (auto v : vals) for (auto cx : ctxs) { if (!pool_take()) continue; std::string s = cx; size_t p = s.find("%s"); s.replace(p, 2, v); emit_now(s); emit_now_extra(s + std::string(1, '\0')); }
        } else if (stage == "hooked") {
            // the same inputs with user-supplied allocation functions installed (no realloc available to the library)
            hooked = 1; enumerate("shortcuts"); enumerate("pieces1"); enumerate("pieces2"); enumerate("tokens3"); if (mode != M_DECODE) enumerate("nearmiss"); hooked = 0;
        } else if (stage == "reuse") {
            // the same memory parsed twice with different contents (a shorter / longer / shifted text written over the previous one): the second result must not depend on the first call
            static const char* T[] = { "[1, 2]", "[1,", "[2,3]", " [2,", "{\"a\":1}", "{\"a\":", "1", "\"ab\"", "\"a", "[]", "", "[1,2,3,4,5,6]", "nul", "null", "[true,false]", "[1]  x", "12345", "-" };
            for (auto a : T) for (auto b : T) { if (!pool_take()) continue; for (int k = 0; k <= 4; k++) { static Case c; c.kind = K_REUSE; c.iv[1] = k; c.iv[5] = 0; c.set(std::string(a) + "\x1f" + b); pool_run(c); } }
        } else if (stage == "faults") {
            // every allocation request of a parse refused in turn, for all token sequences up to 3 tokens and the hand-written texts, through every entry point:
            // a parse that fails for lack of memory is a failed parse like any other (NULL, nothing left allocated, error position reported inside the buffer)
            load_seeds(); const int NT = sizeof SIGMA_T / sizeof *SIGMA_T;
            for (auto& seed : seeds) { if (!pool_take()) continue; static Case c; c.kind = K_FAULT; if (seed.size() > 700) continue; c.set(seed); pool_run(c); }
            for (int m = 1; m <= 3; m++) { std::vector<int> od((size_t)m, 0); for (;;) { if (pool_take()) { std::string t; for (int i = 0; i < m; i++) t += SIGMA_T[od[(size_t)i]]; static Case c; c.kind = K_FAULT; c.set(t); pool_run(c); } int i = m - 1; while (i >= 0 && ++od[(size_t)i] == NT) od[(size_t)i--] = 0; if (i < 0) break; } }
        } else if (stage == "edits") {
            load_seeds();
            const int A = sizeof SIGMA_B;
            for (auto& seed : seeds) {
                size_t n = seed.size();
                for (size_t pos = 0; pos <= n; pos++) {
                    if (pos < n) { if (pool_take()) { std::string s = seed; s.erase(pos, 1); emit_now(s); } }               // delete
                    if (pos + 1 < n) { if (pool_take()) { std::string s = seed; std::swap(s[pos], s[pos + 1]); emit_now(s); } }   // transpose
                    if (pool_take()) emit_now(seed.substr(0, pos));                                                          // truncate
                    for (int a = 0; a < A; a++) {
                        if (pos < n) { if (pool_take()) { std::string s = seed; s[pos] = (char)SIGMA_B[a]; emit_now(s); } }    // substitute
                        if (pool_take()) { std::string s = seed; s.insert(pos, 1, (char)SIGMA_B[a]); emit_now(s); }            // insert
                    }
                }
            }
        }
    }
    void emit_now(const std::string& s) { static Case c; if (s.size() > sizeof c.data) return; c.kind = K_BYTES; c.iv[5] = hooked; c.set(s); pool_run(c); }
    void emit_now_extra(const std::string& s) { emit_now(s); }
    void load_seeds() {
        if (!seeds.empty()) return;
        static const char* hand[] = { "null", "true", "false", "0", "-1.5e+3", "\"\"", "\"a\\\"b\\\\c\\/d\\b\\f\\n\\r\\t\"", "\"\\u00e9\\uD83D\\uDE00\"", "[]", "{}", "[1,2]", "[[],{}]", "{\"a\":1}", "{\"a\":{\"b\":[null,true]},\"c\":\"d\"}",
                                      " [ 1 , \"x\" ] ", "{\n\t\"k\":\t[\n\t\tfalse\n\t]\n}", "\xEF\xBB\xBF[1]", "[1,[2,[3,[4]]]]", "{\"a\":1,\"a\":2}", "[\"\xc3\xa9\",\"\\u0041\"]", "[0.1,1e5,1E-5,-0]" };
        for (auto h : hand) seeds.push_back(h);
        const char* repo = getenv("VERIF_REPO"); std::string dir = std::string(repo ? repo : "/repo") + "/tests/inputs";
        if (cfg.thorough()) {
            DIR* d = opendir(dir.c_str());
            if (d) {
                std::vector<std::string> names; while (dirent* e = readdir(d)) { std::string n = e->d_name; if (n.size() > 0 && n[0] == 't' && n.find(".expected") == std::string::npos) names.push_back(n); }
                closedir(d); std::sort(names.begin(), names.end());
                for (auto& n : names) { FILE* f = fopen((dir + "/" + n).c_str(), "rb"); if (!f) continue; std::string s; char b[4096]; size_t r; while ((r = fread(b, 1, sizeof b, f)) > 0) s.append(b, r); fclose(f); if (s.size() <= 700) seeds.push_back(s); }
            }
        }
    }

    // ---------------------------------------------------------------- execution of one input
    struct Res { cJSON* t = nullptr; const char* end = nullptr; const char* err = nullptr; bool ok = false; std::string text; long leaked = 0; };
    std::string curdesc;
    void V(const char* m, const char* check, const std::string& msg) {
        // report only the selected property's oracle (crashes are always attributed by the pool)
        static const char* names[] = { "safety", "decode", "reject", "endptr" };
        if (strcmp(m, names[mode]) != 0) { if (verbose) printf("  (other-property observation %s:%s %s)\n", m, check, msg.c_str()); return; }
        violation(std::string(m) + ":" + check, msg + " | input(" + std::to_string(cur_n) + " bytes)=" + curdesc);
    }
    size_t cur_n = 0;
    static const char* SENT() { return (const char*)(uintptr_t)0x5151; }

    Res call(int variant, const uint8_t* ro, size_t n, const char* label) {
        // variants: 0 LenOpts(end,0) 1 LenOpts(end,1) 2 LenOpts(NULL,0) 3 LenOpts(NULL,1) 4 WithLength  5 Parse 6 Opts(end,0) 7 Opts(end,1) 8 Opts(NULL,0) 9 Opts(NULL,1)
        Res r; const char* end = SENT(); long before = ledger_live(); uint64_t errs = L.errors;
        const char* v = (const char*)ro;
        switch (variant) {
            case 0: r.t = LIB(cJSON_ParseWithLengthOpts(v, n, &end, 0)); break;
            case 1: r.t = LIB(cJSON_ParseWithLengthOpts(v, n, &end, 1)); break;
            case 2: r.t = LIB(cJSON_ParseWithLengthOpts(v, n, nullptr, 0)); break;
            case 3: r.t = LIB(cJSON_ParseWithLengthOpts(v, n, nullptr, 1)); break;
            case 4: r.t = LIB(cJSON_ParseWithLength(v, n)); break;
            case 5: r.t = LIB(cJSON_Parse(v)); break;
            case 6: r.t = LIB(cJSON_ParseWithOpts(v, &end, 0)); break;
            case 7: r.t = LIB(cJSON_ParseWithOpts(v, &end, 1)); break;
            case 8: r.t = LIB(cJSON_ParseWithOpts(v, nullptr, 0)); break;
            case 9: r.t = LIB(cJSON_ParseWithOpts(v, nullptr, 1)); break;
        }
        ctr().calls++;
        r.end = end; r.err = LIB(cJSON_GetErrorPtr()); r.ok = r.t != nullptr;
        if (r.t) {
            Walk w = walk(r.t); ctr().extra[4]++;
            if (!w.ok) V("safety", "malformed-tree", std::string(label) + ": returned tree fails the structural walk: " + w.err);
            else {
                r.text = w.text;
                if (ledger_live() - before != (long)w.owned.size()) V("safety", "ledger-mismatch", std::string(label) + ": live blocks after success " + std::to_string(ledger_live() - before) + " != blocks owned by the tree " + std::to_string(w.owned.size()));
                for (auto p : w.owned) if (!ledger_is_live(p)) { V("safety", "tree-block-not-live", std::string(label) + ": tree uses a block that is not a live allocation"); break; }
            }
        } else {
            r.leaked = ledger_live() - before;
            if (r.leaked != 0) { V("reject", "leak-on-failure", std::string(label) + ": failing parse left " + std::to_string(r.leaked) + " block(s) allocated"); V("safety", "leak-on-failure", std::string(label) + ": failing parse left " + std::to_string(r.leaked) + " block(s) allocated"); }
        }
        if (L.errors != errs) V("safety", "allocator-misuse", std::string(label) + ": " + L.first_error);
        if (verbose) printf("  %-28s -> %s end=%s err=%s\n", label, r.ok ? r.text.c_str() : "NULL", end == SENT() ? "(unset)" : std::to_string(end - v).c_str(), r.err ? std::to_string(r.err - v).c_str() : "NULL");
        return r;
    }
    void drop(Res& r, const char* label, bool print) {
        if (!r.t) return;
        long before = ledger_live();
        if (print) {
            char* a = LIB(cJSON_Print(r.t)); char* b = LIB(cJSON_PrintUnformatted(r.t)); ctr().calls += 2;
            if (!a || !b) V("safety", "print-failed", std::string(label) + ": parsed tree could not be printed");
            if (a) LIBV(cJSON_free(a)); if (b) LIBV(cJSON_free(b));
            if (ledger_live() != before) V("safety", "print-leak", std::string(label) + ": printing changed the allocation balance");
        }
        Walk w = walk(r.t, W_ROOT_LINKS);
        LIBV(cJSON_Delete(r.t)); ctr().calls++;
        if (w.ok && before - ledger_live() != (long)w.owned.size()) V("safety", "delete-imbalance", std::string(label) + ": delete released " + std::to_string(before - ledger_live()) + " blocks, tree owned " + std::to_string(w.owned.size()));
        r.t = nullptr;
    }
    static bool tail_strict_ok(const uint8_t* p, size_t from, size_t n, int* cls) {
        // cls: 1 = only RFC whitespace then NUL (must succeed), 0 = a byte > 0x20 before any NUL or no NUL (must fail), 2 = other control bytes (unconstrained)
        bool odd = false;
        for (size_t j = from; j < n; j++) {
            if (p[j] == 0) { *cls = odd ? 2 : 1; return true; }
            if (p[j] > 0x20) { *cls = 0; return false; }
            if (!(p[j] == 0x20 || p[j] == 9 || p[j] == 10 || p[j] == 13)) odd = true;
        }
        *cls = 0; return false;
    }

    void check_group(const std::string& b, const uint8_t* ro, size_t n, bool string_entry, Res* R, int nres, const int* variants, const char* const* labels) {
        // R[0]: (end,0) R[1]: (end,1) R[2]: (NULL,0) R[3]: (NULL,1) R[4]: plain
        const uint8_t* bytes = (const uint8_t*)b.data();   // n bytes (for string entry: includes the NUL)
        RV sv; bool has_nul = false; bool S_ok = S_buffer(bytes, n, sv, &has_nul);
        Verdict L0 = L_buffer(bytes, n, false), L1 = L_buffer(bytes, n, true);
        if (S_ok) ctr().extra[1]++; if (L0 == REJECT) ctr().extra[2]++; if (L0 == UNKNOWN) ctr().extra[3]++;
        if (R[0].ok) ctr().extra[0]++;
        note_outcome((uint64_t)R[0].ok | (uint64_t)R[1].ok << 1 | (uint64_t)S_ok << 2 | (uint64_t)L0 << 3 | (uint64_t)L1 << 5 | (uint64_t)string_entry << 7 | (uint64_t)(R[0].ok ? (R[0].t->type & 0xFF) : 0) << 8);
        const char* start = (const char*)ro;
        for (int i = 0; i < nres; i++) {
            bool req = (i == 1 || i == 3); Res& r = R[i]; const char* lb = labels[i];
            // --- decode (C02)
            if (S_ok && (!req || has_nul)) {
                ctr().compared++;
                if (!r.ok) { V("decode", "valid-text-rejected", std::string(lb) + ": valid JSON text rejected (expected value " + rv_text(sv).substr(0, 200) + ")"); if (req) V("endptr", "terminated-valid-text-rejected", std::string(lb) + ": a valid text followed only by whitespace and a zero byte was rejected although termination is satisfied"); }
                else { std::string why; if (!match_rv(r.t, sv, why)) V("decode", "wrong-value", std::string(lb) + ": decoded tree differs from the denoted value: " + why); }
            }
            // --- reject (C03)
            Verdict lv = req ? L1 : L0;
            if (lv == REJECT) { ctr().compared++; if (r.ok) V("reject", "malformed-accepted", std::string(lb) + ": text outside the accepted dialect was parsed to " + r.text.substr(0, 200)); }
            // --- endptr (C10)
            bool has_end = (i == 0 || i == 1);
            if (r.ok) {
                if (r.err != nullptr && mode == M_ENDPTR) {
                    // cJSON_GetErrorPtr returns json+position; after a success both are reset, i.e. NULL
                    V("endptr", "errorptr-not-null-after-success", std::string(lb) + ": cJSON_GetErrorPtr() is not NULL after a successful parse");
                }
                if (has_end) {
                    size_t lim = string_entry ? n - 1 : n;
                    if (r.end == SENT()) V("endptr", "end-not-set", std::string(lb) + ": return_parse_end not written on success");
                    else if (r.end < start || r.end > start + lim) V("endptr", "end-out-of-range", std::string(lb) + ": parse end at offset " + std::to_string(r.end - start) + " outside [0," + std::to_string(lim) + "]");
                }
            } else {
                if (has_end) {
                    if (r.end == SENT()) V("endptr", "error-end-not-set", std::string(lb) + ": return_parse_end not written on failure");
                    else if (r.end != r.err) V("endptr", "end-differs-from-errorptr", std::string(lb) + ": *return_parse_end (offset " + std::to_string(r.end - start) + ") != cJSON_GetErrorPtr()");
                }
                if (r.err == nullptr) V("endptr", "errorptr-null-after-failure", std::string(lb) + ": cJSON_GetErrorPtr() is NULL after a failed parse");
                else { size_t last = n ? n - 1 : 0; if (r.err < start || r.err > start + last) V("endptr", "errorptr-out-of-range", std::string(lb) + ": error position offset " + std::to_string(r.err - start) + " outside the buffer [0," + std::to_string(last) + "]"); }
            }
        }
        // same result with and without a return_parse_end argument, and across entry points
        if (R[0].ok != R[2].ok || R[1].ok != R[3].ok || (nres > 4 && R[4].ok != R[0].ok)) { V("endptr", "result-depends-on-endptr-arg", "success differs between calls with and without return_parse_end / plain entry point"); V("decode", "entry-points-disagree", "entry points disagree on acceptance"); }
        for (int i = 1; i < nres; i++) if (R[i].ok && R[0].ok && R[i].text != R[0].text) { V("decode", "entry-points-disagree", std::string(labels[i]) + ": tree differs from " + labels[0]); V("endptr", "tree-differs", std::string(labels[i]) + ": tree differs from " + labels[0]); }
        // the reported end is the end of the first value (independent scanner): neither short of it nor swallowing bytes behind it
        if (R[0].ok && R[0].end != SENT() && R[0].end >= start && R[0].end <= start + n) {
            bool bom = n >= 3 && bytes[0] == 0xEF && bytes[1] == 0xBB && bytes[2] == 0xBF;
            long le = L_value_end(bytes, n, bom), le2 = bom ? L_value_end(bytes, n, false) : le;
            if (le >= 0 && (R[0].end - start) != le && (R[0].end - start) != le2) V("endptr", "end-not-at-value-end", std::string(labels[0]) + ": parse end at offset " + std::to_string(R[0].end - start) + " but the first value ends at offset " + std::to_string(le));
        }
        // requiring termination: succeeds exactly when the non-requiring parse succeeds and only whitespace then NUL follows
        if (R[0].ok && R[0].end != SENT() && R[0].end >= start && R[0].end <= start + n) {
            int cls = 0; tail_strict_ok(bytes, (size_t)(R[0].end - start), n, &cls);
            if (cls == 1 && !R[1].ok) V("endptr", "terminated-text-rejected", std::string(labels[1]) + ": value followed only by whitespace and a zero byte inside the buffer, but requiring termination failed");
            if (cls == 0 && R[1].ok) V("endptr", "unterminated-text-accepted", std::string(labels[1]) + ": succeeded although the value is not followed by whitespace + zero byte inside the buffer");
            // (where the end designates in the requiring mode - behind the value or at the terminator - is not fixed by the property)
        }
        if (!R[0].ok && R[1].ok) V("endptr", "require-accepts-more", "requiring termination succeeded where the plain parse failed");
    }

    void run_faults(const std::string& b) {
        size_t n = b.size(); std::string bz = b; bz.push_back('\0'); bool nul_inside = memchr(b.data(), 0, n) != nullptr;
        static const char* const names[] = { "ParseWithLengthOpts(end,0)", "ParseWithLengthOpts(end,1)", "ParseWithLengthOpts(NULL,0)", "ParseWithLengthOpts(NULL,1)", "ParseWithLength", "Parse", "ParseWithOpts(end,0)", "ParseWithOpts(end,1)", "ParseWithOpts(NULL,0)", "ParseWithOpts(NULL,1)" };
        for (int variant = 0; variant < 10; variant++) {
            bool str = variant >= 5; if (str && nul_inside) continue;
            const uint8_t* ro; size_t len = str ? n + 1 : n; gm.place_end(str ? bz.data() : b.data(), len, &ro); const char* start = (const char*)ro;
            Res plain = call(variant, ro, len, names[variant]); bool plain_ok = plain.ok; drop(plain, names[variant], false);
            for (uint64_t k = 1; k <= 64; k++) {
                ledger_arm_fault(k, false); Res r = call(variant, ro, len, names[variant]); bool fired = ledger_fault_fired(); ledger_arm_fault(0, false); ctr().extra[7]++;
                if (!fired) { drop(r, names[variant], false); break; }
                std::string lb = std::string(names[variant]) + " with allocation request " + std::to_string(k) + " refused";
                if (r.ok) { if (!plain_ok) V("reject", "malformed-accepted", lb + ": a text that is rejected otherwise was parsed"); drop(r, names[variant], false); continue; }   // completing normally despite the refusal is allowed
                bool has_end = variant == 0 || variant == 1 || variant == 6 || variant == 7; size_t last = len ? len - 1 : 0;
                if (has_end) { if (r.end == SENT()) V("endptr", "error-end-not-set", lb + ": return_parse_end not written on failure"); else if (r.end != r.err) V("endptr", "end-differs-from-errorptr", lb + ": *return_parse_end != cJSON_GetErrorPtr()"); }
                if (r.err == nullptr) V("endptr", "errorptr-null-after-failure", lb + ": cJSON_GetErrorPtr() is NULL after a failed parse");
                else if (r.err < start || r.err > start + last) V("endptr", "errorptr-out-of-range", lb + ": error position outside the buffer");
                note_outcome(0xF000 | (uint64_t)variant << 4 | (uint64_t)(r.err != nullptr));
            }
            if (memcmp(ro, str ? bz.data() : b.data(), len) != 0) V("safety", "input-modified", "input buffer was modified");
        }
        ctr().compared++; ctr().nontrivial++;
    }
    void run_reuse(const std::string& t1, const std::string& t2, int k) {
        static const int sv[] = { 5, 6, 7, 8, 9 }; static const char* const sl[] = { "Parse", "ParseWithOpts(end,0)", "ParseWithOpts(end,1)", "ParseWithOpts(NULL,0)", "ParseWithOpts(NULL,1)" };
        uint8_t* base = gm.rw + 8192; memset(base, 0, 256); memcpy(base, t1.data(), t1.size());
        for (int i = 0; i < 5; i++) { Res r = call(sv[i], base, t1.size() + 1, sl[i]); drop(r, sl[i], false); }
        uint8_t* p2 = base + k; memcpy(p2, t2.data(), t2.size()); p2[t2.size()] = 0;   // whatever followed in the old text stays behind the new terminator
        std::string bz = t2; bz.push_back('\0');
        for (int i = 0; i < 5; i++) {
            Res r = call(sv[i], p2, t2.size() + 1, sl[i]);
            const uint8_t* fresh; gm.place_end(bz.data(), bz.size(), &fresh); Res f = call(sv[i], fresh, bz.size(), sl[i]); ctr().compared++;
            long re = r.end == SENT() ? -2 : (long)(r.end - (const char*)p2), fe = f.end == SENT() ? -2 : (long)(f.end - (const char*)fresh), rerr = r.err ? (long)(r.err - (const char*)p2) : -1, ferr = f.err ? (long)(f.err - (const char*)fresh) : -1;
            if (r.ok != f.ok || r.text != f.text || re != fe || rerr != ferr) {
                std::string m = std::string(sl[i]) + " on memory that held \"" + printable(t1) + "\" before (new text written at offset " + std::to_string(k) + "): " + (r.ok ? "tree " + r.text : std::string("NULL")) + " end " + std::to_string(re) + " error position " + std::to_string(rerr) + "; the same text in fresh memory: " + (f.ok ? "tree " + f.text : std::string("NULL")) + " end " + std::to_string(fe) + " error position " + std::to_string(ferr);
                V("safety", "result-depends-on-earlier-call", m); V("endptr", "result-depends-on-earlier-call", m); V("decode", "result-depends-on-earlier-call", m); V("reject", "result-depends-on-earlier-call", m); }
            drop(r, sl[i], false); drop(f, sl[i], false);
        }
        ctr().nontrivial++;
    }
    void run_case(const Case& c, bool vb) override {
        init(); verbose = vb;
        if (c.kind == K_REUSE) { std::string x = c.str(); size_t sep = x.find('\x1f'); if (sep == std::string::npos) return; std::string t1 = x.substr(0, sep), t2 = x.substr(sep + 1); cur_n = t2.size(); curdesc = "\"" + printable(t2) + "\""; long l0 = ledger_live(); run_reuse(t1, t2, (int)c.iv[1]); if (ledger_live() != l0) V("safety", "leak", "allocation balance changed"); return; }
        struct HookScope { bool on; HookScope(bool o) : on(o) { if (on) install_hooks(HK_CUSTOM); } ~HookScope() { if (on) install_hooks(HK_DEFAULT); } } hookscope(c.kind == K_BYTES && c.iv[5] == 1);
        if (c.kind == K_FAULT) { std::string fb = c.str(); cur_n = fb.size(); curdesc = "\"" + printable(fb.substr(0, 120)) + "\""; uint64_t e0 = L.errors; long l0 = ledger_live(); run_faults(fb); if (L.errors != e0) V("safety", "allocator-misuse", L.first_error); if (ledger_live() != l0) V("safety", "leak", "allocation balance after the fault runs is " + std::to_string(ledger_live() - l0)); return; }
        std::string b = c.kind == K_NEST ? nest_bytes((int)c.iv[1], (long)c.iv[2]) : c.str();
        size_t n = b.size(); cur_n = n;
        curdesc = c.kind == K_NEST ? describe(c) : "\"" + printable(b.substr(0, 120)) + "\"" + (n > 120 ? "..." : "");
        uint64_t errs0 = L.errors; long live0 = ledger_live();
        static const int lv[] = { 0, 1, 2, 3, 4 }; static const char* const ll[] = { "ParseWithLengthOpts(end,0)", "ParseWithLengthOpts(end,1)", "ParseWithLengthOpts(NULL,0)", "ParseWithLengthOpts(NULL,1)", "ParseWithLength" };
        static const int sv[] = { 6, 7, 8, 9, 5 }; static const char* const sl[] = { "ParseWithOpts(end,0)", "ParseWithOpts(end,1)", "ParseWithOpts(NULL,0)", "ParseWithOpts(NULL,1)", "Parse" };
        // ---- length-based entry points, exact-size buffer whose last byte is the last accessible byte
        const uint8_t* ro; gm.place_end(b.data(), n, &ro);
        Res R[5];
        for (int i = 0; i < 5; i++) R[i] = call(lv[i], ro, n, ll[i]);
        if (memcmp(ro, b.data(), n) != 0) V("safety", "input-modified", "input buffer was modified");
        check_group(b, ro, n, false, R, 5, lv, ll);
        if (R[0].ok) ctr().nontrivial++;
        // prefix [start, end) parses by itself to an equal tree (C10)
        if (R[0].ok && R[0].end != SENT() && R[0].end >= (const char*)ro && R[0].end <= (const char*)ro + n) {
            size_t m = (size_t)(R[0].end - (const char*)ro); std::string pre = b.substr(0, m);
            const uint8_t* ro2; std::string keep = R[0].text;
            // the original buffer is still needed for nothing: reuse the map
            gm.place_end(pre.data(), m, &ro2);
            Res P = call(0, ro2, m, "prefix re-parse"); ctr().extra[5]++;
            if (!P.ok) V("endptr", "prefix-does-not-parse", "the bytes before the reported parse end (" + std::to_string(m) + " bytes) do not parse by themselves");
            else if (P.text != keep) V("endptr", "prefix-parses-differently", "the bytes before the reported parse end parse to a different tree");
            drop(P, "prefix re-parse", false);
        }
        drop(R[0], ll[0], true); for (int i = 1; i < 5; i++) drop(R[i], ll[i], false);
        // ---- same buffer placed directly after a guard page (under-read detection)
        { const uint8_t* ro3; gm.place_begin(b.data(), n, &ro3); Res G = call(0, ro3, n, "ParseWithLengthOpts@page-start"); drop(G, "page-start", false); }
        // ---- string entry points: b followed by a NUL that is the last accessible byte
        if (memchr(b.data(), 0, n) == nullptr) {
            std::string bz = b; bz.push_back('\0');
            const uint8_t* roz; gm.place_end(bz.data(), n + 1, &roz); ctr().extra[6]++;
            Res Z[5]; for (int i = 0; i < 5; i++) Z[i] = call(sv[i], roz, n + 1, sl[i]);
            if (memcmp(roz, bz.data(), n + 1) != 0) V("safety", "input-modified", "input string was modified");
            check_group(bz, roz, n + 1, true, Z, 5, sv, sl);
            drop(Z[4], sl[4], true); for (int i = 0; i < 4; i++) drop(Z[i], sl[i], false);
        }
        if (ledger_live() != live0) V("safety", "leak", "allocation balance after deleting every returned tree is " + std::to_string(ledger_live() - live0) + " (expected 0)");
        if (L.errors != errs0) V("safety", "allocator-misuse", L.first_error);
    }
    void finish(std::map<std::string, std::string>& x) override {
        x["rule"] = jstr("one case = one input text, run through all ten entry-point variants on an exact-size buffer that ends at (and, mirrored, starts after) an inaccessible page, and compared with an independent strict RFC 8259 decoder (S) and a recogniser of the library's lenient dialect (L). "
                         "Stages enumerate completely: all byte strings over a 33-byte alphabet up to the length bound, all token sequences over 16 tokens, all sequences of string pieces (escapes, surrogates, malformed escapes, raw bytes), 20 nesting families around the limit, all \\uXXXX escapes and surrogate pairs, number spellings, "
                         "every number length 1..130 in 8 forms and every malformed tail of up to 4 number characters behind a long number, string literals of every length 0..300 and around 512 / 1024 / 4096 (complete and cut off), all single-edit corruptions of seed texts; "
                         "plus: every allocation request of every entry point refused in turn (texts up to 3 tokens), the same memory parsed twice with different contents, and the enumerations repeated under user-supplied allocators");
    }
    std::string describe(const Case& c) override {
        if (c.kind == K_NEST) { static const char* fn[] = { "'['^d", "'['^d ']'^d", "'{\"a\":'^d", "'{\"a\":'^d 1 '}'^d", "alternating [ {\"a\": ^d null closers", "'[1,'^d", "'[ '^d ' ]'^d", "'[' d x '[]' ']'", "'[' d x '{}' ']'", "'[' d x '[1]' ']'", "'{' d x '\"a\":{\"b\":2}' '}'", "'[' d x '[[],{}]' ']'", "'{' d x '\"k\":[]' '}'", "'[0,'^d 1 ']'^d", "'{\"a\":0,\"b\":'^d 1 '}'^d", "alternating later-position nesting ^d", "'[[],'^d 1 ']'^d", "'{\"a\":{},\"b\":'^d 1 '}'^d", "'[{},[],'^d 1 ']'^d", "'{\"a\":[],\"b\":{},\"c\":'^d 1 '}'^d" }; return std::string("nesting family ") + fn[c.iv[1]] + " d=" + std::to_string(c.iv[2]); }
        return "\"" + printable(c.str().substr(0, 100)) + "\" (" + std::to_string(c.len) + " bytes)";
    }
};

} // namespace

int main(int argc, char** argv) { XParse e; return engine_main(argc, argv, e); }
