// x_minify (C13): (a) safety: every byte string up to a length bound over the bytes that steer cJSON_Minify, in a buffer
// whose terminator is the last accessible byte (and, mirrored, whose first byte follows a guard page);
// (b) value preservation: token lists of all small trees with every gap filled from a set of whitespace/comment fillers.
#include "sup.hpp"
#include "trees.hpp"
using namespace vf;

namespace {
const uint8_t SIG[] = { '"', '\\', '/', '*', ' ', '\t', '\n', 'a', '1', '{', ':', ',', '\r' };
const char* GAPS[] = { "", " ", "\t\r\n", "//c\n", "/*c*/", "/* \" */", "// \"\n", " /**/ ", "/***/", "/* * / */", "//\n", "/*\n*/ ",
    "//c\r,1\n" /* a carriage return does not end a line comment */, "/*\r//*/", "//c\\\n" /* a backslash before the line feed does not continue the comment */,
    "//c\n/*c*/", "/*c*///c\n", "/*/c*/" /* the '/' behind the opening marker does not close the comment */, "/*//*/ //\n" };
const int NGAPS = sizeof GAPS / sizeof *GAPS;
const char* STRS[] = { "\"a\"", "\"a b\"", "\"\\\"\"", "\"\\\\\"", "\"a\\\\\"", "\"\\\\\\\"\"", "\"/*x*/\"", "\"//\"", "\" \"", "\"\\\\\\\\\"", "\"\\\"//\\\"\"", "\"\\u0041 \\n\"", "\"*/\"", "\"\xc3\xa9 x /*y*/\"", "\"\\\\\\\" x/\"", "\"a\x7f b\"",
    // literals longer than any block size a bulk copy might use, plain and with escapes late in the literal
    "\"0123456789 0123456789 0123456789 0123456789\"", "\"0123456789/*0123456789*/0123456789//0123\\\"456789 0123456789\\\\\"" };
const int NSTRS = sizeof STRS / sizeof *STRS;

// token list of a reference tree; string leaves/keys are placeholders replaced by literals from STRS
void tokens_of(const RV& v, std::vector<std::string>& out, int& strctr, int strbase) {
    char b[40];
    switch (v.k) {
        case RV::Null: out.push_back("null"); break; case RV::True: out.push_back("true"); break; case RV::False: out.push_back("false"); break;
        case RV::Num: snprintf(b, sizeof b, "%.17g", v.num); out.push_back(b); break;
        case RV::Str: out.push_back(STRS[(strbase + strctr++) % NSTRS]); break;
        case RV::Raw: out.push_back(v.str); break;
        case RV::Arr: out.push_back("["); for (size_t i = 0; i < v.arr.size(); i++) { if (i) out.push_back(","); tokens_of(v.arr[i], out, strctr, strbase); } out.push_back("]"); break;
        case RV::Obj: out.push_back("{"); for (size_t i = 0; i < v.obj.size(); i++) { if (i) out.push_back(","); out.push_back(STRS[(strbase + strctr++) % NSTRS]); out.push_back(":"); tokens_of(v.obj[i].second, out, strctr, strbase); } out.push_back("}"); break;
    }
}

struct XMinify : Engine {
    GuardMap gm; bool verbose = false; std::vector<RV> trees;
    const char* name() override { return "x_minify"; }
    std::vector<std::string> counter_names() override { return { "safety_strings", "value_texts", "minify_calls", "parsed_equal", "shrunk", "unchanged" }; }
    void worker_init() override { gm.create(1 << 16); build_trees(); }
    void build_trees() { if (!trees.empty()) return; TreeAlphabet al; al.leaves = { RV::mk(RV::Null), RV::mk(RV::True), RV::number(1), RV::number(-2.5e-3), RV::string("s") }; al.keys = { "k" }; al.dup_keys = true; al.max_arity = 3; al.max_depth = 3; trees = enumerate_trees(al, 4); }
    std::vector<std::string> stages() override {
        if (!cfg.opt.count("hang_s")) cfg.opt["hang_s"] = "8";   // a Minify call takes microseconds: 8 s without progress is a hang (re-checked alone by vcheck before it is reported)
        std::vector<std::string> st; long k = cfg.optl("bytes", cfg.thorough() ? 7 : 6);
        for (long i = 0; i <= k; i++) st.push_back("bytes" + std::to_string(i));
        st.push_back("runs"); st.push_back("allbytes"); st.push_back("uniform"); st.push_back("single"); st.push_back("allgaps"); if (cfg.thorough()) st.push_back("pairs");
        return st;
    }
    void run_text(int kind, const std::string& text, const std::vector<std::string>* toks) { static Case c; c.kind = (uint32_t)kind; if (text.size() + 1 > sizeof c.data) return; c.set(text); (void)toks; pool_run(c); }
    std::string join(const std::vector<std::string>& t, const std::vector<int>& gaps) { std::string s; for (size_t i = 0; i <= t.size(); i++) { s += GAPS[gaps[i]]; if (i < t.size()) s += t[i]; } return s; }

    void enumerate(const std::string& stage) override {
        build_trees();
        if (stage.compare(0, 5, "bytes") == 0) {
            int k = atoi(stage.c_str() + 5); const int A = sizeof SIG; std::vector<int> od(k, 0); std::string s((size_t)k, 0);
            for (;;) { if (pool_take()) { for (int i = 0; i < k; i++) s[i] = (char)SIG[od[i]]; run_text(0, s, nullptr); } int i = k - 1; while (i >= 0 && ++od[i] == A) od[i--] = 0; if (i < 0) break; }
            return;
        }
        if (stage == "runs") {   // long runs of one steering byte, alone, after a value, before a value, inside a string
            std::vector<int> lens; for (int len = 1; len <= 70; len++) lens.push_back(len); for (int len : { 127, 128, 129, 255, 256, 257, 300, 1000, 4097 }) lens.push_back(len);
            for (size_t a = 0; a < sizeof SIG; a++) for (int len : lens) for (int ctx = 0; ctx < 11; ctx++) { if (!pool_take()) continue; std::string r((size_t)len, (char)SIG[a]);
                // ctx 5..10: the buffer ends inside a string literal / comment after a long run (the terminator is the last accessible byte)
                run_text(0, ctx == 0 ? r : ctx == 1 ? "[1]" + r : ctx == 2 ? r + "[1]" : ctx == 3 ? "\"" + r + "\"" : ctx == 4 ? "[1," + r + "2]" : ctx == 5 ? "\"" + r : ctx == 6 ? "[1,\"" + r : ctx == 7 ? "\"" + r + "\\" : ctx == 8 ? "/*" + r : ctx == 9 ? "//" + r : "{\"k\":\"x\\\"" + r, nullptr); }
            return;
        }
        if (stage == "allbytes") {   // every single byte and every pair of bytes (incl. truncated multi-byte sequences such as a partial BOM)
            for (int a = 1; a < 256; a++) { if (!pool_take()) continue; run_text(0, std::string(1, (char)a), nullptr); for (int b = 1; b < 256; b++) { char t[3] = { (char)a, (char)b, 0 }; run_text(0, t, nullptr); } run_text(0, std::string(1, (char)a) + "1", nullptr); run_text(0, "1" + std::string(1, (char)a), nullptr); }
            return;
        }
        for (size_t ti = 0; ti < trees.size(); ti++) for (int sb = 0; sb < NSTRS; sb++) {
            std::vector<std::string> t; int sc = 0; tokens_of(trees[ti], t, sc, sb);
            if (sc == 0 && sb > 0) break;     // no string tokens: one variant is enough
            size_t g = t.size() + 1;
            if (stage == "uniform") { for (int f = 0; f < NGAPS; f++) { if (!pool_take()) continue; run_text(1, join(t, std::vector<int>(g, f)), &t); } }
            else if (stage == "single") { for (size_t p = 0; p < g; p++) for (int f = 1; f < NGAPS; f++) { if (!pool_take()) continue; std::vector<int> gp(g, 0); gp[p] = f; run_text(1, join(t, gp), &t); } }
            else if (stage == "pairs") { if (sb % 4) continue; for (size_t p = 0; p < g; p++) for (size_t q = p + 1; q < g; q++) for (int f = 1; f < NGAPS; f++) for (int h = 1; h < NGAPS; h++) { if (!pool_take()) continue; std::vector<int> gp(g, 0); gp[p] = f; gp[q] = h; run_text(1, join(t, gp), &t); } }
            else if (stage == "allgaps") { if (g > (cfg.thorough() ? 6u : 5u)) continue; const int NG = g >= 6 ? 10 : NGAPS;   /* six gaps: the first 10 fillers (the later ones are covered by uniform / single / pairs and by up to five gaps) */ std::vector<int> od(g, 0); for (;;) { if (pool_take()) run_text(1, join(t, od), &t); int i = (int)g - 1; while (i >= 0 && ++od[i] == NG) od[i--] = 0; if (i < 0) break; } }
        }
    }

    // independent token scanner: JSON text with // and /* */ comments and whitespace between tokens -> concatenated tokens
    static bool strip(const std::string& s, std::string& out) {
        size_t i = 0, n = s.size(); out.clear();
        while (i < n) {
            char c = s[i];
            if (c == ' ' || c == '\t' || c == '\r' || c == '\n') { i++; continue; }
            if (c == '/' && i + 1 < n && s[i + 1] == '/') { i += 2; while (i < n && s[i] != '\n') i++; if (i < n) i++; continue; }
            if (c == '/' && i + 1 < n && s[i + 1] == '*') { size_t e = s.find("*/", i + 2); if (e == std::string::npos) return false; i = e + 2; continue; }
            if (c == '"') { size_t j = i + 1; for (;;) { if (j >= n) return false; if (s[j] == '\\') { j += 2; continue; } if (s[j] == '"') break; j++; } out.append(s, i, j - i + 1); i = j + 1; continue; }
            out += c; i++;
        }
        return true;
    }

    void V(const char* sig, const std::string& m, const std::string& in) { violation(std::string("minify:") + sig, m + " | input=\"" + printable(in.substr(0, 200)) + "\""); }
    std::string minify_at(const std::string& in, bool end_flush) {
        size_t n = in.size() + 1;
        uint8_t* buf = end_flush ? gm.rw + gm.size - n : gm.rw;
        // poison around: bytes before (end placement) / after (begin placement) must stay untouched
        if (end_flush) memset(buf - 32, 0xC5, 32); else memset(buf + n, 0xC5, 32);
        memcpy(buf, in.c_str(), n);
        LIBV(cJSON_Minify((char*)buf)); ctr().calls++; ctr().extra[2]++;
        const uint8_t* can = end_flush ? buf - 32 : buf + n;
        for (int i = 0; i < 32; i++) if (can[i] != 0xC5) { V("write-outside-buffer", end_flush ? "bytes before the buffer were modified" : "bytes after the original terminator were modified", in); break; }
        const void* z = memchr(buf, 0, n);
        if (!z) { V("not-terminated", "no zero byte inside the original extent after minifying", in); return std::string((const char*)buf, n); }
        return std::string((const char*)buf);
    }
    void run_case(const Case& c, bool vb) override {
        verbose = vb; std::string in = c.str();
        if (memchr(in.data(), 0, in.size())) return;
        std::string r1 = minify_at(in, true), r2 = minify_at(in, false);
        if (vb) printf("  minify(\"%s\") -> \"%s\"\n", printable(in).c_str(), printable(r1).c_str());
        if (r1 != r2) V("placement-dependent", "result depends on where the buffer lies (reads outside the string?)", in);
        if (r1.size() > in.size()) V("longer-than-input", "result is longer than the input", in);
        if (r1.size() < in.size()) ctr().extra[4]++; else ctr().extra[5]++;
        note_outcome(in.size() - r1.size());
        if (c.kind == 0) { ctr().extra[0]++; return; }
        ctr().extra[1]++; ctr().nontrivial++; ctr().compared++;
        std::string expect;
        if (!strip(in, expect)) { violation("harness:bad-value-text", "reference scanner cannot tokenise the generated text"); return; }
        if (r1 != expect) { V("wrong-result", "minified text is \"" + printable(r1.substr(0, 200)) + "\" but the tokens of the input concatenate to \"" + printable(expect.substr(0, 200)) + "\"", in); return; }
        std::string r3 = minify_at(r1, true);
        if (r3 != r1) V("not-idempotent", "minifying the result again changes it to \"" + printable(r3.substr(0, 200)) + "\"", in);
        // parses to a tree equal to that of the original (comments/whitespace removed by the reference scanner)
        cJSON* a = LIB(cJSON_Parse(expect.c_str())); cJSON* b = LIB(cJSON_Parse(r1.c_str()));
        if (!a || !b) V("result-does-not-parse", "minified text (or reference text) does not parse", in);
        else { Walk wa = walk(a), wb = walk(b); if (!wa.ok || !wb.ok || wa.text != wb.text) V("value-changed", "minified text parses to a different tree", in); else ctr().extra[3]++; }
        if (a) LIBV(cJSON_Delete(a)); if (b) LIBV(cJSON_Delete(b));
    }
    std::string describe(const Case& c) override { return "\"" + printable(c.str().substr(0, 150)) + "\""; }
    void finish(std::map<std::string, std::string>& x) override {
        x["rule"] = jstr("runs of each steering byte of every length 1..70 and around 128 / 256 / 1000 / 4097 in 11 contexts (incl. buffers that end inside a literal or comment); safety: every string over 13 steering bytes up to the length bound, in a buffer ending at a guard page and in one starting after a guard page; value: token lists of all trees <= 4 nodes x 18 string-literal variants with gaps filled from 19 whitespace/comment fillers "
                         "(uniform, one gap, all combinations for short lists, thorough: two gaps); non-trivial = value-preservation cases");
    }
};
} // namespace
int main(int argc, char** argv) { XMinify e; return engine_main(argc, argv, e); }
