#!/usr/bin/env python3
"""Write the self-contained task text for one round of seeded-defect sub-agents (one per property) and create their scratch worktrees.
usage: gen_seed_prompts.py <round-number> <out-dir> <worktree-dir>      (e.g. 5 /tmp/seeded5 /tmp/wt5)
The sub-agents see only the property text and the one-line summaries of the changes already kept for it."""
import sys, os, json, subprocess
rnd, OUT, WT = sys.argv[1], sys.argv[2], sys.argv[3]
props = [json.loads(l) for l in open('/verif/properties.jsonl')]
HEAD = subprocess.check_output("git -C /repo rev-parse --short HEAD", shell=True, text=True).strip()
T = open('/verif/tools/seed_prompt_template.txt').read()
for p in props:
    pid = p['id']; wt = os.path.join(WT, pid); out = os.path.join(OUT, pid)
    os.makedirs(out, exist_ok=True)
    if not os.path.isdir(wt): subprocess.check_call("git -C /repo worktree add --detach %s %s >/dev/null 2>&1" % (wt, HEAD), shell=True)
    taken = []
    d = os.path.join('/verif/seeded', pid)
    for k in sorted(os.listdir(d)) if os.path.isdir(d) else []:
        mp = os.path.join(d, k, 'meta.json')
        if os.path.exists(mp):
            m = json.load(open(mp)); taken.append("- [%s] %s" % (str(m.get('mechanism', ''))[:60], str(m.get('summary', ''))[:300]))
    txt = T.replace('@WT@', wt).replace('@OUT@', out).replace('@ID@', pid).replace('@TITLE@', p['title']).replace('@STATEMENT@', p['statement']).replace('@QUANT@', p['quantifier']['text']).replace('@ROUND@', rnd).replace('@NTAKEN@', str(len(taken))).replace('@TAKEN@', "\n".join(taken))
    open(os.path.join(out, 'PROMPT.txt'), 'w').write(txt)
print("prompts in", OUT, "worktrees in", WT, "at", HEAD)
