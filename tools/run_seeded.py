#!/usr/bin/env python3
"""Apply each seeded defect to /repo (git apply), run the owning property's check, revert (git checkout -- .).
usage: run_seeded.py [quick|thorough] [C01/a ...]   -> table on stdout, results in seeded/RESULTS.json"""
import sys, os, json, subprocess, re, time
HERE = os.path.dirname(os.path.dirname(os.path.abspath(__file__)))
tier = sys.argv[1] if len(sys.argv) > 1 and sys.argv[1] in ("quick", "thorough") else "quick"
ids = [a for a in sys.argv[1:] if "/" in a]
S = os.path.join(HERE, "seeded")
if not ids:
    ids = sorted(os.path.join(p, k) for p in os.listdir(S) if re.match(r"C\d\d$", p) for k in sorted(os.listdir(os.path.join(S, p))) if os.path.isdir(os.path.join(S, p, k)))
resp = os.path.join(S, "RESULTS.json")
results = json.load(open(resp)) if os.path.exists(resp) else {}
TREE = os.environ.get("MUT_TREE", "/repo")   # default: apply to /repo itself and undo; MUT_TREE=<scratch worktree> leaves /repo alone (for runs in parallel with other work)
def sh(cmd): return subprocess.run(cmd, shell=True, stdout=subprocess.PIPE, stderr=subprocess.STDOUT, text=True, errors="replace")
assert sh("git -C %s status --porcelain --untracked-files=no" % TREE).stdout.strip() == "", "/repo has local modifications"
for rel in ids:
    prop = rel.split("/")[0]; extra = sys.argv[1:]
    mp = os.path.join(S, rel, "meta.json")
    check_props = (json.load(open(mp)).get("check_with") if os.path.exists(mp) else None) or [prop]
    prop = check_props[0]
    patch = os.path.join(S, rel, "patch.diff")
    if os.path.exists(os.path.join(S, rel, "patch_head.diff")):   # same change re-based onto the repaired tree
        patch = os.path.join(S, rel, "patch_head.diff")
    r = sh("git -C %s apply %s" % (TREE, patch))
    if r.returncode != 0:
        print("%-7s patch does not apply to current /repo HEAD: %s" % (rel, r.stdout.strip()[:200])); sh("git -C %s checkout -- ." % TREE); results[rel] = dict(applies=False); continue
    try:
        t0 = time.time()
        r = sh("cd %s && VERIF_REPO=%s VERIF_EVIDENCE_DIR=%s/build/evidence_mutants ./vcheck %s %s" % (HERE, TREE, HERE, prop, tier))
        viol = [l for l in r.stdout.splitlines() if l.startswith("VIOLATION")]
        sig = [l.strip() for l in r.stdout.splitlines() if l.strip().startswith("signature=")]
        results[rel] = dict(applies=True, tier=tier, checked_with=prop, exit=r.returncode, detected=(r.returncode == 1 and bool(viol)), first=(sig[0][:300] if sig else ""), wall_s=round(time.time() - t0, 1))
        print("%-7s %-8s exit=%d %s  %s" % (rel, "DETECTED" if results[rel]["detected"] else "MISSED", r.returncode, "%.0fs" % (time.time() - t0), (sig[0][:160] if sig else r.stdout.strip().splitlines()[-1][:160] if r.stdout.strip() else "")), flush=True)
    finally:
        sh("git -C %s checkout -- ." % TREE)
    json.dump(results, open(resp, "w"), indent=1, sort_keys=True)
