#!/usr/bin/env python3
"""Like run_seeded.py, but every seeded defect gets its own scratch worktree of /repo HEAD (removed afterwards), so several
run side by side and /repo itself is never touched.
usage: run_seeded_parallel.py [quick|thorough] [-jN] C01/o C02/o ...   -> table on stdout, results merged into seeded/RESULTS.json"""
import sys, os, json, subprocess, re, time, shutil, concurrent.futures
HERE = os.path.dirname(os.path.dirname(os.path.abspath(__file__)))
tier = "thorough" if "thorough" in sys.argv[1:] else "quick"
jobs = int(([a[2:] for a in sys.argv[1:] if a.startswith("-j")] or ["4"])[0])
ids = [a for a in sys.argv[1:] if "/" in a]
S = os.path.join(HERE, "seeded"); WT = "/tmp/mutp"
def sh(cmd): return subprocess.run(cmd, shell=True, stdout=subprocess.PIPE, stderr=subprocess.STDOUT, text=True, errors="replace")
def one(rel):
    tag = rel.replace("/", "_"); tree = os.path.join(WT, tag)
    sh("git -C /repo worktree remove --force %s" % tree); shutil.rmtree(tree, ignore_errors=True)
    sh("git -C /repo worktree add --detach %s HEAD" % tree)
    try:
        mp = os.path.join(S, rel, "meta.json")
        prop = ((json.load(open(mp)).get("check_with") if os.path.exists(mp) else None) or [rel.split("/")[0]])[0]
        patch = os.path.join(S, rel, "patch_head.diff")
        if not os.path.exists(patch): patch = os.path.join(S, rel, "patch.diff")
        r = sh("git -C %s apply %s" % (tree, patch))
        if r.returncode != 0: return rel, dict(applies=False), "patch does not apply: " + r.stdout.strip()[:200]
        t0 = time.time()
        r = sh("cd %s && VERIF_RUN_TAG=_%s VERIF_REPO=%s VERIF_EVIDENCE_DIR=%s/build/evidence_mutants/%s ./vcheck %s %s" % (HERE, tag, tree, HERE, tag, prop, tier))
        viol = [l for l in r.stdout.splitlines() if l.startswith("VIOLATION")]
        sig = [l.strip() for l in r.stdout.splitlines() if l.strip().startswith("signature=")]
        res = dict(applies=True, tier=tier, checked_with=prop, exit=r.returncode, detected=(r.returncode == 1 and bool(viol)), first=(sig[0][:300] if sig else ""), wall_s=round(time.time() - t0, 1))
        return rel, res, (sig[0][:160] if sig else (r.stdout.strip().splitlines() or [""])[-1][:160])
    finally:
        sh("git -C /repo worktree remove --force %s" % tree); shutil.rmtree(tree, ignore_errors=True)
        shutil.rmtree(os.path.join(HERE, "build", "bin", rel.split("/")[0] + "_" + tag), ignore_errors=True)
os.makedirs(WT, exist_ok=True)
resp = os.path.join(S, "RESULTS.json")
with concurrent.futures.ThreadPoolExecutor(max_workers=jobs) as ex:
    for rel, res, msg in ex.map(one, ids):
        results = json.load(open(resp)) if os.path.exists(resp) else {}
        results[rel] = res
        json.dump(results, open(resp, "w"), indent=1, sort_keys=True)
        print("%-7s %-8s exit=%s %ss  %s" % (rel, "DETECTED" if res.get("detected") else "MISSED", res.get("exit"), res.get("wall_s"), msg), flush=True)
