#!/usr/bin/env python3
"""Apply each property-preserving change (benign/<area>/<k>/patch.diff) to /repo, run the checks that exercise the touched
area at the quick tier, revert. Every check must exit 0: an alarm here is a false alarm of the machinery.
usage: run_benign.py [area/k ...]"""
import sys, os, json, subprocess, re, time
HERE = os.path.dirname(os.path.dirname(os.path.abspath(__file__)))
S = os.path.join(HERE, "benign")
AREA = {"parser": ["C01", "C02", "C03", "C10", "C07", "C14", "C20"], "printer": ["C04", "C05", "C09", "C08", "C14", "C20"],
        "edit": ["C06", "C07", "C11", "C14", "C08", "C19", "C20"], "dupcmp": ["C11", "C12", "C06", "C07", "C17", "C08", "C20"],
        "minify": ["C13", "C20"], "ptrpatch": ["C15", "C16", "C17", "C14", "C20"], "mergesort": ["C18", "C19", "C17", "C16", "C20"],
        "misc": ["C14", "C10", "C20", "C01", "C07", "C08"]}
ALL = "--all" in sys.argv
ids = [a for a in sys.argv[1:] if "/" in a] or sorted(os.path.join(a, k) for a in os.listdir(S) if os.path.isdir(os.path.join(S, a)) for k in sorted(os.listdir(os.path.join(S, a))) if os.path.isdir(os.path.join(S, a, k)))
resp = os.path.join(S, "RESULTS.json")
results = json.load(open(resp)) if os.path.exists(resp) else {}
TREE = os.environ.get("MUT_TREE", "/repo")   # default: apply to /repo itself and undo; MUT_TREE=<scratch worktree> leaves /repo alone (for runs in parallel with other work)
def sh(cmd): return subprocess.run(cmd, shell=True, stdout=subprocess.PIPE, stderr=subprocess.STDOUT, text=True, errors="replace")
assert sh("git -C %s status --porcelain --untracked-files=no" % TREE).stdout.strip() == "", "/repo has local modifications"
for rel in ids:
    area = rel.split("/")[0].rstrip("23")
    r = sh("git -C %s apply %s" % (TREE, os.path.join(S, rel, "patch.diff")))
    if r.returncode != 0:
        print("%-12s patch does not apply: %s" % (rel, r.stdout.strip()[:150])); sh("git -C %s checkout -- ." % TREE); results[rel] = dict(applies=False); continue
    out = {}
    try:
        for prop in (["C%02d" % i for i in range(1, 21)] if ALL else AREA.get(area, [])[:int(os.environ.get("CHECK_LIMIT", "99"))]):   # CHECK_LIMIT=n: only the n checks closest to the touched area
            t0 = time.time(); r = sh("cd %s && VERIF_REPO=%s VERIF_EVIDENCE_DIR=%s/build/evidence_mutants ./vcheck %s quick" % (HERE, TREE, HERE, prop))
            sig = [l.strip() for l in r.stdout.splitlines() if l.strip().startswith("signature=")]
            out[prop] = dict(exit=r.returncode, first=(sig[0][:300] if sig else ""), wall_s=round(time.time() - t0, 1))
            if r.returncode != 0: print("%-12s %s ALARM exit=%d %s" % (rel, prop, r.returncode, (sig[0][:220] if sig else r.stdout.strip().splitlines()[-1][:220])), flush=True)
    finally:
        sh("git -C %s checkout -- ." % TREE)
    prev = results.get(rel, {}).get("checks", {}) if ALL else {}
    prev.update(out); out = prev
    results[rel] = dict(applies=True, checks=out, silent=all(v["exit"] == 0 for v in out.values()))
    print("%-12s %s (%s)" % (rel, "silent" if results[rel]["silent"] else "ALARMS", " ".join("%s:%d" % (p, v["exit"]) for p, v in out.items())), flush=True)
    json.dump(results, open(resp, "w"), indent=1, sort_keys=True)
