#!/usr/bin/env python3
"""Regenerates MANIFEST.json from the table below (single source of truth for the registered checks)."""
import json, os
HERE = os.path.dirname(os.path.dirname(os.path.abspath(__file__)))
MC = "model_checking"
C = {}
# one-parameter enumerations added after the seeded-defect rounds 5 and 6 (see DESIGN.md §8)
MORE = {
 "C01": " Also: every number length 1..130 and string literals of every length 0..300 (and around 512/1024/4096), complete and cut off; every allocation request of every entry point refused in turn; the same memory parsed twice with different contents; the enumerations repeated under user-supplied allocators.",
 "C02": " Also: every number length 1..130, string literals of every length 0..300 (and around 512/1024/4096) and the enumerations repeated under user-supplied allocators.",
 "C03": " Also: every malformed tail of up to 4 number characters behind numbers of 61..130 characters (a text is outside the dialect only if it is so under both readings of an over-long number), refused allocations, memory reuse. k malformed escapes behind a plain prefix of every length 0..24.",
 "C10": " Also: every allocation request refused in turn (error position still reported inside the buffer) and the same memory parsed twice with different contents (results independent of earlier calls).",
 "C04": " Also: strings and member names of every length 0..300 (and around 512/1024/4096) in 7 escape patterns; every string of up to 3 (4) bytes over a 12-byte alphabet; trees whose array elements carry stale member names.",
 "C05": " Also: the length ladder of C04 and raw items holding JSON text (0..20 empty raw items for the caller-buffer property). Strictness of the output for trees with unnamed members / strings without text.",
 "C09": " Also: the length ladder of C04 and arrays / objects of 0..20 items that print as nothing. The sweep is repeated on the same tree built with constant member names.",
 "C06": " Also: member names of every byte value and every length 0..300 (and around 512/1024) for lookup, detach, delete and replace by name; references to reference nodes.",
 "C07": " Also: unnamed replacements of object members, malformed number runs longer than any scratch buffer; the ownership comparison continues when the list/map model (C06) already differs.",
 "C11": " Also: in every state a duplicate with each of the first 12 allocation requests refused (source untouched); the verdict for a maximal-depth chain before and after refused duplicates.",
 "C14": " Also: an API script whose Utils calls are refused half-way (over-deep values inside merge patches, patch operations and patch generation).",
 "C19": " Also: every member count 0..70 (and around 128/256/1024/5000) in four key orders, followed by appending a new smallest / middle / largest key and sorting again; merge-patch generation that fails for lack of memory.",
 "C08": " Also: every old x new length of SetValuestring over 11 sizes and parses of tokens longer than any fixed buffer. Bulk constructors of 8..100 elements and string lists with NULL entries.",
 "C12": " Also: strings / member names of every length 0..300 (and around 512/1024) with near-miss variants and containers of every member count 0..70 (and around 128/256/1000), compared inside groups of equal size. Nodes changed through SetValuestring / SetNumberHelper / SetBoolValue, their duplicates and parsed equivalents.",
 "C13": " Also: runs of every steering byte of every length 1..70 (and around 128/256/1000/4097) in 11 contexts including buffers that end inside a literal or comment; fillers with a carriage return or a trailing backslash inside a line comment. Fillers combining a line comment with a block comment and a block comment that starts with '/'.",
 "C15": " Also: member names / tokens of every length 0..300 (and around 512/1024) plain, escaped and non-ASCII with near-miss pointers; every document also with constant keys and with stale member names on array elements. '#'-prefixed pointers; construction under a holder that also contains references to the tree (round trip).",
 "C16": " Also: paths of every length (ladder documents), every pair of numbers whose integer views coincide although the values differ, documents and patches built with constant keys / stale member names.",
 "C17": " Also: ladder documents, chains 998..1500 deep (arrays, objects, alternating), awkward-number pairs.",
 "C18": " Also: ladder documents, chains 998..1500 deep, awkward-number pairs.",
 "C20": " Also: a thread program with tokens larger than any scratch buffer (12 programs, all unordered pairs). All pairs also with user-supplied allocation functions installed before the threads start (bounds 0-1).",
}
def add(pid, engine, category, technique, text, note, ref):
    text = text + MORE.get(pid, "")
    C[pid] = dict(property_id=pid, quick_cmd="./vcheck %s quick" % pid, thorough_cmd="./vcheck %s thorough" % pid,
                  evidence_file="evidence/%s.json" % pid, replay_cmd_template="./vcheck replay {path}", engine=engine,
                  level_claimed=dict(category=category, text=text, design_ref=ref), level_note=note, technique=technique)

PARSE_NOTE = ("Trusted: gcc ASan/UBSan, guard-page placement and the allocation ledger as memory oracles; the harness' reference recognisers S (strict RFC 8259) and L (most permissive dialect the property allows); "
              "libc strtod as correctly rounded. Bounded by the stated alphabets/lengths; x86-64 glibc only.")
add("C01", "x_parse", MC, "bounded exhaustive input enumeration (all byte/token/piece strings up to a length bound) of the real parser under ASan + guard pages + allocation ledger",
    "Every byte string over a 33-byte alphabet up to length 4 (thorough 5), every token string up to 5 (6) tokens, every string-literal built from up to 3 (4) escape pieces in 6 contexts, 20 nesting families around the limit and to depth 100000 (incl. levels that first hold one or two empty containers), "
    "each through all 10 entry-point/option combinations on exact-size read-only buffers flush against PROT_NONE pages; tree walk, print, delete and ledger balance checked on every execution.", PARSE_NOTE, "DESIGN.md §3 C01")
add("C02", "x_parse", MC, "bounded exhaustive input enumeration compared per execution with an independent strict decoder",
    "Same enumerations plus all 65536 \\uXXXX escapes in both hex cases as value and key, surrogate-pair sweeps, a number-literal grid and all trees up to 4 (5) nodes serialised with three whitespace fillings, BOM and terminator variants; "
    "every text the strict decoder accepts must be accepted by all entry points and decode to the same value node by node (bytes, double bits, integer view).", PARSE_NOTE, "DESIGN.md §3 C02")
add("C03", "x_parse", MC, "bounded exhaustive enumeration of malformed inputs (all short strings, near-miss values in contexts, every single-edit corruption of seed texts) against a permissive reference grammar",
    "Everything outside the permissive dialect L must return NULL from every entry point with an unchanged allocation ledger; deep-nesting prefixes are refused without stack exhaustion.", PARSE_NOTE, "DESIGN.md §3 C03")
add("C10", "x_parse", MC, "bounded exhaustive input enumeration with relational oracle on parse end / error pointer / termination flag",
    "For every enumerated buffer: end pointer range, end == end of the first value according to an independent scanner, prefix re-parse equality, exact characterisation of require_null_terminated (also after literals that set errno=ERANGE), error pointer == *return_parse_end inside the buffer, NULL error pointer after success, independence of the return_parse_end argument.", PARSE_NOTE, "DESIGN.md §3 C10")

PRINT_NOTE = ("Trusted: gcc ASan/UBSan, guard pages and the allocation ledger as memory oracles; the harness' strict decoder S; libc strtod/printf. Trees are bounded by the node bound and the stated leaf/key alphabets; "
              "doubles by the sweep (every binary exponent x mantissa patterns, decimal grids, dense low/high binades); only the C locale exists in this image.")
add("C04", "x_print", MC, "bounded exhaustive enumeration of trees x print configurations (every prebuffer size, both allocator kinds) executed on the real printer and parser",
    "All trees up to 5 (thorough 6) nodes over {null,true,false,1,\"s\"} x keys {a,b} built through the construction API, constant-key API, bulk constructors and the parser; number sweep over every binary exponent, decimal grids and dense extreme binades; "
    "all 1-byte strings and all strings up to 2 (3) bytes over a 12-byte alphabet as value and key; every token kind moved across the 256-byte growth boundary. Per tree: Print, PrintUnformatted, PrintBuffered for every prebuffer 0..len+2, PrintPreallocated, with and without realloc; "
    "each text is re-parsed and compared node by node (2^-52 relative, integers exact) and re-printed (fixed point).", PRINT_NOTE, "DESIGN.md §3 C04")
add("C05", "x_print", MC, "bounded exhaustive enumeration of trees x print configurations, every output fed to an independent strict RFC 8259 decoder",
    "Same tree space (valid UTF-8 strings) plus non-finite numbers: every output must be accepted by the independent strict decoder and decode to the tree's value, formatted minus whitespace outside strings must equal unformatted byte for byte, all buffered/preallocated variants must equal the plain ones, integer-valued numbers print as plain decimals.", PRINT_NOTE, "DESIGN.md §3 C05")
add("C09", "x_print", MC, "bounded exhaustive enumeration of trees x every caller-buffer length 0..len+16 x both formats with the buffer flush against a guard page",
    "cJSON_PrintPreallocated on a buffer of exactly n bytes whose end touches a PROT_NONE page, canary before it, pre-filled with non-zero bytes: no fault, true only with the exact zero-terminated text, true for n >= len+1+5, monotone in n, negative length / NULL refused; raw items, string items without text and object members without a name included.", PRINT_NOTE, "DESIGN.md §3 C09")

HIST_NOTE = ("Trusted: the harness' list/map model (Appendix B of DESIGN.md), gcc ASan/UBSan, the allocation ledger, read-only pages for borrowed memory. Bounded by depth, <= 7 nodes / 3 roots per state and the stated operation alphabet; "
             "histories respect the documented ownership rules (no attach of an attached item, no edit of a tree while a reference borrows from it).")
add("C06", "x_hist", MC, "explicit-state breadth-first search over the real edit API (states de-duplicated by canonical tree text), every transition compared with a list/map model",
    "All histories up to depth 3 (thorough 4) from 5 start states over ~25 API functions with all small arguments (every live node/root, indices -1..size+1, keys a/A/b/B incl. keys aliasing the item's own key, self-insertion, NULL arguments, SetValuestring with a pointer into the node's own stale tail); after every call: return value, full structural walk "
    "(next/prev/child->prev invariants), node-by-node model comparison, size/index/key/iteration queries. Extra stage: case-sensitive/-insensitive key matching of Get/Has/Detach over all 255x255 single-byte key pairs.", HIST_NOTE, "DESIGN.md §3 C06")
add("C07", "x_hist", MC, "explicit-state BFS over the real API with an allocation-ledger monitor evaluated in every state, under the default and a tagging custom allocator",
    "Same exploration as C06 run under the default allocator and under cJSON_InitHooks with a tagging allocator: at every state live blocks == blocks owned by the live trees, every owned block live, no double/foreign/interior free, borrowed memory in read-only pages, "
    "print calls with allocation request 1..3 refused release everything exactly once, 16 malformed texts x 3 parse entry points are rejected without leaving or double-releasing a block, and deleting all roots returns the ledger to its initial balance.", HIST_NOTE, "DESIGN.md §3 C07")
add("C11", "x_hist", MC, "explicit-state BFS with cJSON_Duplicate in the alphabet and all later edits on source and copy; plus depth/cycle family on a large stack",
    "Duplicate(node, recurse in {0,1,2,-1}) of every live node in every reachable state (incl. reference nodes, constant keys, borrowed chains): copy equals source under the model, prints identically, compares equal, no sibling links, reference bit cleared, owned blocks disjoint, source unchanged; "
    "all later edit/delete histories stay consistent with model and ledger. Chains of depth 10..6*CJSON_CIRCULAR_LIMIT, 2-/3-/self-cycles through child, cycles through a reference node built with the public API, over-deep members that follow ordinary siblings, and flat arrays wider than the limit.", HIST_NOTE, "DESIGN.md §3 C11")
add("C14", "x_hist", MC, "explicit-state BFS over the real API repeated under 8 hook configurations with link-time interposition of malloc/realloc/free",
    "Configurations {default, both custom (tagged blocks), malloc only, free only, custom then NULL, custom then NULL members, custom then malloc only, custom then free only} x all histories to depth 2 (3): with both hooks custom no libc allocator call from library context and no realloc; "
    "every released block was handed out by the matching allocator (tag check), one-sided configurations route every request through the installed function, reset restores the default; print and Utils results are released with cJSON_free. "
    "Plus 12 broad API scripts (string literals of every escape count 1..320 in 4 shapes as value and member name, 64+-character numbers, large texts, all print variants, Minify, accepted/rejected/whole-document patches, generate/merge/sort/pointer utilities, deep duplicate, malformed texts) under each of the 8 configurations.", HIST_NOTE, "DESIGN.md §3 C14")
add("C19", "x_hist", MC, "explicit-state BFS alternating sorting calls and edits from every object up to 4 (5) members over 6 keys",
    "Start states: all 2801 objects with <= 4 members over keys {a,A,b,B,_,\"\",\"\\u00e9\"} with duplicates, the 2-3 member ones also nested under constant/owned keys, plus nested/paired objects (thorough: one more alternation layer); alternating layers of sorting calls (SortObject cs/ci, patch test, patch generation, merge-patch generation) and the full edit alphabet: "
    "sorted permutation of the same nodes, idempotent, structural walk, and list-model agreement of every later append/insert/detach/replace/print/delete.", HIST_NOTE, "DESIGN.md §3 C19")

add("C08", "x_fault", "fault_enumeration", "exhaustive single-fault enumeration: every allocation request index of every scenario refused in turn, two allocator configurations",
    "~110 scenarios (parse entry points, all print variants on small and >256-byte trees with several prebuffers, every Create*, every Add*ToObject helper, AddItemToObject[CS] with fresh/keyed/constant-key items, AddItemReferenceTo*, Duplicate deep/with references, ReplaceItemInObject[CaseSensitive], "
    "SetValuestring, bulk constructors n=0..3); N requests counted by a fault-free run, then request k refused for k=1..N+1 under custom hooks and under the default allocator with malloc/realloc interposed (thorough: also every request from k on). "
    "On reported failure: ledger equals the pre-call ledger, pre-existing trees and caller-owned arguments have identical walk text, the repeated call succeeds with the fault-free result; otherwise the result equals the fault-free result.",
    "Trusted: the allocation ledger, ASan/UBSan, structural walk. Deviation bound = 1 refused request (thorough: suffix of refused requests); scenario list is finite and stated.", "DESIGN.md §3 C08")
add("C12", "x_compare", MC, "all ordered pairs of exhaustively enumerated trees x both case modes against reference equality",
    "All trees with <= 3 nodes over 19 leaves (numbers 1, 1+eps, 1+2eps, 1e300 and neighbour, denormal pair, 5e-324, inf, NaN, strings, raw) and keys {a,A,b} (thorough: <= 4 nodes over a reduced alphabet), one-member objects over every single-byte key; every ordered pair x {case-sensitive, -insensitive}, "
    "second tree in one of three ownership variants: Compare(a,b) == Compare(b,a) == model, reflexive, variants equal, NULL/invalid (type 0, two type bits, string without text) false, arguments unchanged; the reversed call is made with every truthy case_sensitive value {1,2,-1,256} in turn; trees nested CJSON_NESTING_LIMIT deep.",
    "Trusted: reference equality in the harness (relative-epsilon rule evaluated in long double; pairs the statement leaves open are not asserted).", "DESIGN.md §3 C12")
add("C13", "x_minify", MC, "bounded exhaustive byte strings (safety, guard pages on both sides) and token x gap-filler combinations (value preservation) through cJSON_Minify",
    "Safety: all strings up to 6 (thorough 7) bytes over the 13 bytes that steer the scanner, terminator as last accessible byte and mirrored placement. Value: token lists of all trees <= 4 nodes x 13 string-literal variants (escaped quotes/backslashes, comment look-alikes) with gaps from 12 fillers "
    "(uniform, single gap, all combinations for short lists, thorough: pairs of gaps): result == concatenated tokens, idempotent, parses to an equal tree.",
    "Trusted: the harness' independent token scanner; guard pages; ASan.", "DESIGN.md §3 C13")

UT_NOTE = ("Trusted: the harness' RFC 6901/6902/7396 reference evaluators on a plain value model (validated against the RFC examples and the repository's json-patch-tests by tools/selftest), ASan/UBSan, allocation ledger. "
           "Bounded by the document node bound, key/leaf alphabets and pointer/patch alphabets stated in the evidence.")
add("C15", "x_utils", MC, "bounded exhaustive documents x pointer strings against an RFC 6901 reference resolver; all (root,node) pairs for construction",
    "3356 documents (all trees <= 3 nodes over leaves {1,\"s\"} and 13 awkward keys incl. '', '/', '~', '~0', '~1', '01', '-') plus a 30-element array, a 2-element array and a nested array of objects x every pointer string over {/,~,0,1,2,a,A,-} up to length 4 (thorough 5) "
    "and 1320 special strings (leading zeros, trailing garbage, overflowing indices, bad escapes): returned node pointer must equal the reference, on the document built with owned keys and on the same document built with constant keys. FindPointerFromObjectTo for every node (incl. two documents nested CJSON_NESTING_LIMIT deep): exact text, resolves back, foreign node -> NULL; repeated with user-supplied allocation hooks installed (no direct C-library allocation on hook blocks).", UT_NOTE, "DESIGN.md §3 C15")
add("C16", "x_utils", MC, "bounded exhaustive documents x patch documents against an RFC 6902 reference evaluator",
    "All 1918 documents <= 3 nodes x every single-operation patch over one-token paths; 332 documents x every single operation over two-token paths/froms; all two-operation patches over existing/insertable paths; every JSON object with <= 3 (4) members over {op,path,from,value,x} x 18 values as patch (array-wrapped and bare). "
    "Every other case builds document and patch with constant keys; the one-token stage is repeated under the tagging custom allocator (no libc call, no foreign free); an index stage covers overflowing / malformed array index tokens in every operation. "
    "Status 0 iff reference succeeds and then equal documents (objects as sets); always: no crash, structural walk, patch unchanged in value, balanced ledger. One recorded known finding (copy/move to the whole document).", UT_NOTE, "DESIGN.md §3 C16")
add("C17", "x_utils", MC, "all ordered pairs of enumerated documents through patch generation, result validated by the library and by an independent evaluator",
    "All ordered pairs of the 1918 documents <= 3 nodes over leaves {null,1,1e-20,3e-20,\"s\"} and keys {a,A,b,a/b,m~n,''} (thorough: + documents <= 4 nodes): generated patch is an array, empty iff equal, transforms source into target under both evaluators; inputs equal in value, walk ok, still appendable/printable/deletable.", UT_NOTE, "DESIGN.md §3 C17")
add("C18", "x_utils", MC, "all ordered pairs of enumerated documents through merge-patch application and generation against an RFC 7396 reference",
    "All ordered (target, patch) and (from, to) pairs over the 1918 documents plus 500+ nested objects whose keys differ only by case / are non-ASCII and carry null members: MergePatchCaseSensitive == reference merge; generated merge patch applied by library and reference yields 'to' (to without null members); inputs unchanged in value and healthy.", UT_NOTE, "DESIGN.md §3 C18")

add("C20", "x_sched", MC, "preemption-bounded stateless exploration of thread interleavings (cooperative scheduler over real pthreads, scheduling points at every potentially conflicting access to static storage observed through compiler instrumentation) + free-running ThreadSanitizer pass",
    "All 66 unordered pairs of 11 thread programs (parse/print, failing parse, construction+PrintBuffered, numbers, PrintPreallocated, duplicate+compare, edits, minify, patch generate+apply, merge patch+sort, whole-document patches) and 8 triples, each thread on private data that differs per thread: "
    "all schedules with <= 3 preemptions (thorough 5; triples 2/3) are executed; per schedule each thread's observation must equal its solo observation; any static byte written by one thread and touched by another (other than the documented error position) is a violation. "
    "The same bodies run truly concurrently under the real ThreadSanitizer runtime as an additional detector.",
    "Trusted: clang's -fsanitize=thread instrumentation reports every load/store of library code; wrapped libc calls (memcpy, memset, strcpy, strcat, strlen, strcmp, strncmp, sprintf) cover static accesses made inside libc; other libc functions are assumed thread-safe when the locale is not changed; sequential consistency at scheduling points (no weak-memory effects); "
    "accesses to thread-private memory commute, so they are not scheduling points (checked: a thread touching static storage it does not touch when alone is reported).", "DESIGN.md §3 C20")

NA = [dict(property_id=p, reason="check not built yet in this revision (planned: see DESIGN.md §3); nothing is claimed for it") for p in
      ["C04","C05","C06","C07","C08","C09","C11","C12","C13","C14","C15","C16","C17","C18","C19","C20"] if p not in C]
ENGINES = [
 dict(name="x_parse", path="src/x_parse.cpp", serves_properties=["C01","C02","C03","C10"], kind_free_text="bounded exhaustive input enumeration over the real parse entry points, forked worker pool with crash capture"),
 dict(name="x_print", path="src/x_print.cpp", serves_properties=["C04","C05","C09"], kind_free_text="bounded exhaustive tree enumeration x print configuration sweep on the real printer"),
 dict(name="x_hist", path="src/x_hist.cpp", serves_properties=["C06","C07","C11","C14","C19"], kind_free_text="explicit-state breadth-first search over the real edit API with canonical-state de-duplication against a list/map model"),
 dict(name="x_fault", path="src/x_fault.cpp", serves_properties=["C08"], kind_free_text="exhaustive single-fault enumeration: every allocation request of every scenario refused in turn"),
 dict(name="x_compare", path="src/x_compare.cpp", serves_properties=["C12"], kind_free_text="all ordered pairs of enumerated trees against reference equality"),
 dict(name="x_minify", path="src/x_minify.cpp", serves_properties=["C13"], kind_free_text="bounded exhaustive byte strings and token/gap combinations through cJSON_Minify in guard-page buffers"),
 dict(name="x_utils", path="src/x_utils.cpp", serves_properties=["C15","C16","C17","C18"], kind_free_text="bounded exhaustive documents x pointers / patches / document pairs against RFC 6901/6902/7396 reference evaluators"),
 dict(name="x_sched", path="src/x_sched.cpp", serves_properties=["C20"], kind_free_text="preemption-bounded stateless exploration of thread interleavings at every access to static storage"),
]
M = dict(version=1, setup_cmd="make -C /verif setup",
         hooks=dict(guard="DAVEGAMBLE_CJSON_VERIF", enable="no source hooks are used: checks compile the unmodified cJSON.c/cJSON_Utils.c from /repo with sanitizers and interpose the allocator at link time (-Wl,--wrap=malloc,...)",
                    baseline_off_cmd="/verif/tools/baseline.sh", source_commits=[], add_only=True),
         engines=[e for e in ENGINES if any(p in C for p in e["serves_properties"])],
         checks=[C[k] for k in sorted(C)],
         notes="All checks are bounded exhaustive explorations of the real implementation built from /repo's working tree (VERIF_REPO overrides the path). known_findings.json lists recorded defects; evidence/ is rewritten by every run.",
         not_applicable=NA)
json.dump(M, open(os.path.join(HERE, "MANIFEST.json"), "w"), indent=1)
print("wrote MANIFEST.json with", len(C), "checks")
