#!/usr/bin/env python3
"""Validate the harness' reference models against external material (run by `make selftest`; not a registered check).
1. RFC 6902/6901/7396 evaluators: repository json-patch-tests + RFC tables (build/selftest patch).
2. Strict decoder S vs Python's json on an exhaustive enumeration: differences must be exactly the documented ones
   (lone surrogates, \\u0000 [outside cJSON's documented limits], NaN/Infinity literals, 1e400 -> inf is accepted by both)."""
import sys, os, json, subprocess, math
HERE = os.path.dirname(os.path.dirname(os.path.abspath(__file__)))
exe = os.path.join(HERE, "build", "selftest")
repo = os.environ.get("VERIF_REPO", "/repo")
rc = subprocess.run([exe, "patch", repo]).returncode
def canon(v):
    if v is None: return "n"
    if v is True: return "t"
    if v is False: return "f"
    if isinstance(v, (int, float)): return "#%.17g" % float(v)
    if isinstance(v, str): return "s" + v.encode("utf-8", "surrogatepass").hex()
    if isinstance(v, list): return "[" + "".join(canon(x) + "," for x in v) + "]"
    raise TypeError
def canon_pairs(pairs): return ("obj", pairs)
def canon2(v):
    if isinstance(v, tuple) and v[0] == "obj": return "{" + "".join(k.encode("utf-8", "surrogatepass").hex() + ":" + canon2(x) + "," for k, x in v[1]) + "}"
    if isinstance(v, list): return "[" + "".join(canon2(x) + "," for x in v) + "]"
    return canon(v)
def bad_const(c): raise ValueError("constant " + c)
n = diffs = known = 0
p = subprocess.Popen([exe, "sdump"], stdout=subprocess.PIPE, text=True)
for line in p.stdout:
    h, verdict, c = line.rstrip("\n").split("\t")
    raw = bytes.fromhex(h); n += 1
    try:
        v = json.loads(raw.decode("utf-8"), object_pairs_hook=canon_pairs, parse_constant=bad_const)
        pc = canon2(v); pv = "A"
    except Exception:
        pv = "R"; pc = ""
    if pv == verdict and (pv == "R" or pc.replace("#-0,", "#0,").replace("#-0", "#0") == c.replace("#-0", "#0")): continue
    text = raw.decode("utf-8", "replace")
    lone = pv == "A" and verdict == "R" and ("\\ud800" in text.lower() or "\\u0000" in text.lower())
    if lone: known += 1; continue
    diffs += 1
    if diffs <= 20: print("SELFTEST-FAIL S vs python json differ on %r: S=%s %s python=%s %s" % (raw, verdict, c, pv, pc))
print("selftest S vs python json: %d inputs, %d documented differences, %d unexpected differences" % (n, known, diffs))
sys.exit(1 if (rc or diffs) else 0)
