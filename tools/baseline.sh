#!/bin/sh
# Build the repository exactly like the pinned baseline (guard off, no instrumentation) and run its test suite.
# usage: tools/baseline.sh [utils]   (utils: additionally enable the cJSON_Utils tests, not part of the 19 baseline tests)
set -e
REPO="${VERIF_REPO:-/repo}"
HERE="$(cd "$(dirname "$0")/.." && pwd)"
D="$HERE/build/baseline${1:+_$1}"
EXTRA=""
[ "$1" = "utils" ] && EXTRA="-DENABLE_CJSON_UTILS=ON"
rm -rf "$D"
cmake -Wno-deprecated -G Ninja -S "$REPO" -B "$D" -DCMAKE_BUILD_TYPE=RelWithDebInfo -DCMAKE_C_FLAGS=-Wno-error -DENABLE_LOCALES=ON $EXTRA >/dev/null
cmake --build "$D" >/dev/null
ctest --test-dir "$D" -j8 --timeout 900
