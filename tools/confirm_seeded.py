#!/usr/bin/env python3
"""Confirm seeded defects independently: in a scratch worktree of the pinned commit, the demo passes without the
patch, the patched tree builds and passes the repository's test-suite, and the demo fails with the patch.
usage: confirm_seeded.py <dir with C??/<k>/{patch.diff,demo.c,meta.json}> [ids...]
Writes the outcome into each meta.json under "confirmed"."""
import sys, os, json, subprocess, re, shutil, concurrent.futures

BASE = sys.argv[1]
PIN = os.environ.get("PIN", "d74af5d")
WT = "/tmp/cw"

def sh(cmd, cwd=None, timeout=900):
    r = subprocess.run(cmd, shell=True, cwd=cwd, stdout=subprocess.PIPE, stderr=subprocess.STDOUT, text=True, errors="replace", timeout=timeout)
    return r.returncode, r.stdout

def demo(tree, d, tag):
    src = open(os.path.join(d, "demo.c")).read()
    src = re.sub(r"\\\n\s*\*?\s*", " ", src)   # join continuation lines of the build command
    m = re.search(r"^\s*(?:/\*)?\s*\*?\s*(?:TREE=\S+;\s*)?((?:gcc|cc|clang)\b.*)$", src, re.M)
    cmd = re.sub(r"\s*\*/\s*$", "", m.group(1).strip())
    work = os.path.join(WT, "demo_" + tag)
    shutil.rmtree(work, ignore_errors=True); os.makedirs(work)
    shutil.copy(os.path.join(d, "demo.c"), work)
    rc, out = sh("TREE=%s; %s" % (tree, cmd), cwd=work, timeout=600)
    shutil.rmtree(work, ignore_errors=True)
    return rc, out[-600:]

def confirm(rel):
    d = os.path.join(BASE, rel); tag = rel.replace("/", "")
    tree = os.path.join(WT, tag)
    sh("git -C /repo worktree remove --force %s" % tree); shutil.rmtree(tree, ignore_errors=True)
    rc, out = sh("git -C /repo worktree add --detach %s %s" % (tree, PIN))
    res = dict(pinned_commit=PIN)
    try:
        rc0, o0 = demo(tree, d, tag)
        res["demo_without_patch_exit"] = rc0
        rc, out = sh("git apply %s" % os.path.join(d, "patch.diff"), cwd=tree)
        res["patch_applies"] = rc == 0
        if rc != 0:
            res["error"] = out[-300:]; return rel, res
        utils = "-DENABLE_CJSON_UTILS=ON" if "cJSON_Utils.c" in open(os.path.join(d, "patch.diff")).read() else ""
        rc, out = sh("cmake -G Ninja -B _b -DCMAKE_BUILD_TYPE=RelWithDebInfo -DCMAKE_C_FLAGS=-Wno-error -DENABLE_LOCALES=ON >/dev/null 2>&1 && cmake --build _b >/dev/null 2>&1 && ctest --test-dir _b -j4 --timeout 900 2>&1 | tail -3", cwd=tree)
        m = re.search(r"(\d+)% tests passed, (\d+) tests failed out of (\d+)", out)
        res["baseline_tests"] = m.group(0) if m else out[-200:]
        res["baseline_pass"] = bool(m and m.group(2) == "0" and m.group(3) == "19")
        rc, out = sh("gcc -c -DENABLE_LOCALES cJSON_Utils.c -o /dev/null", cwd=tree)
        res["utils_compiles"] = rc == 0
        if utils:
            rc, out = sh("cmake -G Ninja -B _bu -DCMAKE_BUILD_TYPE=RelWithDebInfo -DCMAKE_C_FLAGS=-Wno-error -DENABLE_LOCALES=ON %s >/dev/null 2>&1 && cmake --build _bu >/dev/null 2>&1 && ctest --test-dir _bu -j4 --timeout 900 2>&1 | tail -3" % utils, cwd=tree)
            m = re.search(r"(\d+)% tests passed, (\d+) tests failed out of (\d+)", out)
            res["utils_tests"] = m.group(0) if m else out[-200:]
        rc1, o1 = demo(tree, d, tag)
        res["demo_with_patch_exit"] = rc1
        res["demo_with_patch_tail"] = o1[-300:]
        res["ok"] = bool(rc0 == 0 and res["baseline_pass"] and rc1 != 0)
    finally:
        sh("git -C /repo worktree remove --force %s" % tree); shutil.rmtree(tree, ignore_errors=True)
    return rel, res

def main():
    os.makedirs(WT, exist_ok=True)
    ids = sys.argv[2:] or sorted(os.path.join(p, k) for p in os.listdir(BASE) if re.match(r"C\d\d$", p) for k in os.listdir(os.path.join(BASE, p)) if os.path.isdir(os.path.join(BASE, p, k)))
    with concurrent.futures.ThreadPoolExecutor(max_workers=8) as ex:
        for rel, res in ex.map(confirm, ids):
            mp = os.path.join(BASE, rel, "meta.json")
            meta = json.load(open(mp)) if os.path.exists(mp) else {}
            meta["confirmed"] = res
            json.dump(meta, open(mp, "w"), indent=1)
            print(rel, "OK" if res.get("ok") else "NOT-CONFIRMED", {k: v for k, v in res.items() if k in ("demo_without_patch_exit", "baseline_tests", "demo_with_patch_exit", "patch_applies", "utils_tests")}, flush=True)

main()
